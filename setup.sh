#!/bin/bash
# MANIFEST.setup_cmd: offline install of the two third-party helpers the checks use beside /venv.
set -e
cd "$(dirname "$0")"
mkdir -p .deps evidence replays
need=""
/venv/bin/python -c "import hypothesis" 2>/dev/null || need="$need hypothesis"
PYTHONPATH=.deps /venv/bin/python -c "import jsonschema" 2>/dev/null || need="$need jsonschema"
PYTHONPATH=.deps /venv/bin/python -c "import atheris" 2>/dev/null || need="$need atheris"
if [ -n "$need" ]; then
  PIP_NO_INDEX=1 /venv/bin/pip install -q --no-index --find-links /opt/veriftools/wheels --target .deps $need || echo "WARN: could not install:$need"
fi
PYTHONPATH=.deps /venv/bin/python -c "import hypothesis, jsonschema; print('setup ok: hypothesis', hypothesis.__version__)"
