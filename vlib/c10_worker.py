"""
Fresh-interpreter worker for C10: executes one call script and prints one digest per call.
usage: python c10_worker.py <job.json> <script index>      (PYTHONHASHSEED comes from the environment)
The parent only compares digests (and keeps the canonical text of the first occurrence for the report).
"""
import ast
import hashlib
import io
import json
import os
import shutil
import sys
import tempfile
from copy import deepcopy

ROOT = os.path.dirname(os.path.dirname(os.path.abspath(__file__)))
sys.path.insert(0, ROOT)
from vlib import core  # noqa: E402

core.setup_paths()


def rep(v):
    """address-free representation: AST nodes by ast.dump, containers recursively"""
    if isinstance(v, ast.AST):
        return "AST:" + ast.dump(v)
    if isinstance(v, dict):
        return "{" + ", ".join("%s: %s" % (rep(k), rep(x)) for k, x in v.items()) + "}"
    if isinstance(v, (list, tuple)):
        return "[" + ", ".join(map(rep, v)) + "]"
    return repr(v)


def canon_ir(ir):
    """order of parameters is semantic and kept; key order inside one ParamVal is not (dict equality ignores it)"""
    out = {"name": ir.get("name"), "doc": ir.get("doc"), "type": ir.get("type")}
    out["params"] = [[n, sorted((str(k), rep(v)) for k, v in p.items())] for n, p in (ir.get("params") or {}).items()]
    ret = ir.get("returns")
    out["returns"] = None if not ret else [[n, sorted((str(k), rep(v)) for k, v in p.items())] for n, p in ret.items()]
    return json.dumps(out)


def main():
    job = json.load(open(sys.argv[1]))
    script = job["scripts"][int(sys.argv[2])]
    inputs = job["inputs"]
    tmp = tempfile.mkdtemp(prefix="c10w_", dir="/dev/shm" if os.path.isdir("/dev/shm") else None)
    real_out = sys.stdout
    results = []
    try:
        if script.get("import_first"):
            for m in script["import_first"]:
                __import__(m)
        import cdd.__main__  # noqa: F401
        import cdd.argparse_function.emit
        import cdd.argparse_function.parse
        import cdd.class_.emit
        import cdd.class_.parse
        import cdd.compound.doctrans
        import cdd.compound.gen
        import cdd.compound.exmod_utils
        import cdd.compound.openapi.emit
        import cdd.docstring.emit
        import cdd.docstring.parse
        import cdd.function.emit
        import cdd.function.parse
        import cdd.json_schema.emit
        import cdd.json_schema.parse
        import cdd.shared.ast_utils
        import cdd.sqlalchemy.emit
        import cdd.sqlalchemy.parse
        from cdd.shared.source_transformer import to_code

        counter = [0]

        def fresh(name):
            counter[0] += 1
            d = os.path.join(tmp, "c%d" % counter[0])
            os.makedirs(d)
            return os.path.join(d, name)

        def first(src):
            return ast.parse(src).body[0]

        def api_function_parse(x):
            return canon_ir(cdd.function.parse.function(first(x["src"])))

        def api_function_roundtrip(x):
            ir = cdd.function.parse.function(first(x["src"]))
            return to_code(cdd.function.emit.function(deepcopy(ir), function_name="f", function_type="static", docstring_format=x.get("style", "rest")))

        def api_function_positional(x):
            # the other signature shape of the function emitter (parameters positional instead of keyword-only),
            # for an unbound function and for a method
            ir = cdd.function.parse.function(first(x["src"]))
            return "\n#----\n".join(
                to_code(cdd.function.emit.function(deepcopy(ir), function_name="f", function_type=ft, emit_as_kwonlyargs=False, docstring_format=x.get("style", "rest"), type_annotations=ta))
                for ft, ta in (("static", True), (None, False), ("self", True))
            )

        def api_function_to_class(x):
            ir = cdd.function.parse.function(first(x["src"]))
            return to_code(cdd.class_.emit.class_(deepcopy(ir), class_name="K"))

        def api_function_to_argparse(x):
            ir = cdd.function.parse.function(first(x["src"]))
            return to_code(cdd.argparse_function.emit.argparse_function(deepcopy(ir)))

        def api_function_to_docstring(x):
            ir = cdd.function.parse.function(first(x["src"]))
            return cdd.docstring.emit.docstring(deepcopy(ir), docstring_format=x.get("style", "rest"))

        def api_class_parse(x):
            return canon_ir(cdd.class_.parse.class_(first(x["src"])))

        def api_class_to_all(x):
            ir = cdd.class_.parse.class_(first(x["src"]))
            ir.setdefault("returns", None)
            out = [
                to_code(cdd.function.emit.function(deepcopy(ir), function_name="f", function_type="static")),
                to_code(cdd.argparse_function.emit.argparse_function(deepcopy(ir))),
                json.dumps(cdd.json_schema.emit.json_schema(deepcopy(ir))),
                to_code(cdd.sqlalchemy.emit.sqlalchemy(deepcopy(ir), class_name="K", table_name="k_tbl")),
                to_code(cdd.sqlalchemy.emit.sqlalchemy_table(deepcopy(ir), name="k_tbl")),
            ]
            return "\n#----\n".join(out)

        def api_argparse_parse(x):
            return canon_ir(cdd.argparse_function.parse.argparse_ast(first(x["src"])))

        def api_json_parse(x):
            ir = cdd.json_schema.parse.json_schema(deepcopy(x["schema"]))
            return canon_ir(ir) + to_code(cdd.class_.emit.class_(deepcopy(ir), class_name="K"))

        def api_docstring_parse(x):
            return canon_ir(cdd.docstring.parse.docstring(x["text"]))

        def api_docstring_roundtrip(x):
            ir = cdd.docstring.parse.docstring(x["text"])
            return canon_ir(ir) + "".join("\n#--%s\n%s" % (st, cdd.docstring.emit.docstring(deepcopy(ir), docstring_format=st)) for st in ("rest", "google", "numpydoc"))

        def api_sync(x):
            import cdd.__main__ as m

            d = os.path.dirname(fresh("x"))
            paths = {k: os.path.join(d, k + ".py") for k in ("c", "f", "a")}
            for k in paths:
                with open(paths[k], "w") as f:
                    f.write(x[k])
            m.main(["sync", "--class", paths["c"], "--class-name", "ConfigClass", "--function", paths["f"], "--function-name", "method_name", "--argparse-function", paths["a"], "--argparse-function-name", "set_cli_args", "--truth", x.get("truth", "class")])
            return "\n#----\n".join(open(paths[k]).read() for k in ("c", "f", "a"))

        def api_sqlalchemy_variants(x):
            ir = cdd.sqlalchemy.parse.sqlalchemy(first(x["src"]))
            return to_code(cdd.sqlalchemy.emit.sqlalchemy_table(deepcopy(ir), name="k_tbl")) + to_code(cdd.sqlalchemy.emit.sqlalchemy_hybrid(deepcopy(ir), class_name="K", table_name="k_tbl"))

        def api_sqlalchemy_parse(x):
            return canon_ir(cdd.sqlalchemy.parse.sqlalchemy(first(x["src"])))

        def api_infer_imports(x):
            mod = ast.parse(x["src"])
            imps = cdd.shared.ast_utils.infer_imports(mod) or ()
            opt = cdd.shared.ast_utils.optimise_imports(list(imps))
            return "".join(map(to_code, opt))

        def api_gen(x):
            inp = fresh("input_mod.py")
            with open(inp, "w") as f:
                f.write(x["src"])
            out = fresh("out.py")
            kw = dict(x.get("kw", {}))
            if x.get("prepend"):
                kw["prepend"] = x["prepend"]
                kw["imports_from_file"] = inp
            cdd.compound.gen.gen(x.get("tpl", "{name}Gen"), inp, x.get("parse", "class"), x["emit"], out, emit_and_infer_imports=x.get("infer", True), **kw)
            return open(out).read()

        def api_gen_json_file(x):
            # a function -> JSON-schema FILE through gen (the JSON encoder turns set-valued defaults into sorted lists)
            inp = fresh("input_fn.py")
            with open(inp, "w") as f:
                f.write(x["src"])
            out = fresh("out.json")
            cdd.compound.gen.gen("{name}Gen", inp, "function", "json_schema", out, emit_and_infer_imports=False)
            return open(out).read()

        def api_doctrans(x):
            p = fresh("mod.py")
            with open(p, "w") as f:
                f.write(x["src"])
            cdd.compound.doctrans.doctrans(filename=p, docstring_format=x.get("style", "google"), type_annotations=x.get("ta", True), no_word_wrap=None)
            return open(p).read()

        def api_openapi(x):
            return json.dumps(cdd.compound.openapi.emit.openapi([(x["name"], deepcopy(x["schema"]), "/api/" + x["name"].lower(), "id", x.get("crud", "CRD"))]))

        def _live(x):
            """the object named x['obj'], imported from a real file (the in-memory / `inspect` path of the parsers)"""
            import importlib.util

            p = fresh("live_mod_%d.py" % counter[0])
            with open(p, "w") as f:
                f.write("from typing import *\n\n\n" + x["src"])
            name = os.path.splitext(os.path.basename(p))[0]
            spec = importlib.util.spec_from_file_location(name, p)
            mod = importlib.util.module_from_spec(spec)
            sys.modules[name] = mod  # stays registered: inspect.getsource of a class looks its module up by name
            spec.loader.exec_module(mod)
            return getattr(mod, x["obj"])

        def api_live_function(x):
            ir = cdd.function.parse.function(_live(x))
            ir.setdefault("returns", None)
            # (function / argparse emit are not used here: the live path keeps the return default as a Python value, on which
            #  the function and argparse emitters raise - deterministic, but it would hide the interesting text)
            return canon_ir(ir) + to_code(cdd.class_.emit.class_(deepcopy(ir), class_name="K")) + cdd.docstring.emit.docstring(deepcopy(ir), docstring_format="numpydoc")

        def api_live_class(x):
            ir = cdd.class_.parse.class_(_live(x))
            ir.setdefault("returns", None)
            return canon_ir(ir) + to_code(cdd.class_.emit.class_(deepcopy(ir), class_name="K")) + to_code(cdd.function.emit.function(deepcopy(ir), function_name="f", function_type="static"))

        def api_module_contents(x):
            p = fresh("pkg_init.py")
            with open(p, "w") as f:
                f.write(x["src"])
            res = cdd.compound.exmod_utils.get_module_contents(None, p)
            return json.dumps(list(res))

        apis = {k[4:]: v for k, v in locals().items() if k.startswith("api_")}
        for api, key in script["calls"]:
            sys.stdout = io.StringIO()
            try:
                text = apis[api](deepcopy(inputs[key]))
            except Exception as e:  # an exception must be just as deterministic as a result
                text = "EXC:%s@%s" % (type(e).__name__, core.exc_bucket(e))
            finally:
                sys.stdout = real_out
            text = text.replace(tmp, "<TMP>")
            results.append([api, key, hashlib.sha256(text.encode()).hexdigest(), text[:2000]])
    finally:
        sys.stdout = real_out
        shutil.rmtree(tmp, ignore_errors=True)
    json.dump(results, real_out)


if __name__ == "__main__":
    main()
