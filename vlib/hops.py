"""
One "hop" = emit -> render to text -> re-read the text -> parse with the matching parser.
The parser always sees *re-read text*, never the emitter's own AST object (DESIGN C02).
Import cdd lazily (after core.setup_paths()).
"""
import ast
import json
from copy import deepcopy

_m = {}


def load():
    if _m:
        return _m
    import cdd.__main__  # noqa: F401  (import preamble, DESIGN R7)
    import cdd.argparse_function.emit
    import cdd.argparse_function.parse
    import cdd.class_.emit
    import cdd.class_.parse
    import cdd.docstring.emit
    import cdd.docstring.parse
    import cdd.function.emit
    import cdd.function.parse
    import cdd.json_schema.emit
    import cdd.json_schema.parse
    import cdd.pydantic.emit
    import cdd.pydantic.parse
    import cdd.sqlalchemy.emit
    import cdd.sqlalchemy.parse
    from cdd.shared.source_transformer import to_code

    _m.update(cdd=cdd, to_code=to_code)
    return _m


def fix(ir, name="Foo"):
    """What every consumer of a parser result does: make the optional keys present."""
    ir = dict(ir)
    ir.setdefault("doc", "")
    ir.setdefault("returns", None)
    if not ir.get("name"):
        ir["name"] = name
    ir.pop("_internal", None)
    return ir


def emit_src(fmt, ir, **kw):
    """-> source text of `ir` emitted as `fmt` (fmt names below)."""
    m = load()
    cdd, to_code = m["cdd"], m["to_code"]
    ir = deepcopy(ir)
    if fmt == "class":
        node = cdd.class_.emit.class_(ir, **kw)
    elif fmt == "pydantic":
        node = cdd.pydantic.emit.pydantic(ir, **kw)
    elif fmt == "function":
        kw.setdefault("function_name", "foo")
        kw.setdefault("function_type", "static")
        node = cdd.function.emit.function(ir, **kw)
    elif fmt == "argparse":
        node = cdd.argparse_function.emit.argparse_function(ir, **kw)
    elif fmt == "sqlalchemy":
        kw.setdefault("class_name", "Foo")
        kw.setdefault("table_name", "foo_tbl")
        node = cdd.sqlalchemy.emit.sqlalchemy(ir, **kw)
    elif fmt == "sqlalchemy_hybrid":
        kw.setdefault("class_name", "Foo")
        kw.setdefault("table_name", "foo_tbl")
        node = cdd.sqlalchemy.emit.sqlalchemy_hybrid(ir, **kw)
    elif fmt == "sqlalchemy_table":
        kw.setdefault("name", "foo_tbl")
        node = cdd.sqlalchemy.emit.sqlalchemy_table(ir, **kw)
    else:
        raise KeyError(fmt)
    return to_code(node), node


def parse_src(fmt, src, **kw):
    m = load()
    cdd = m["cdd"]
    node = ast.parse(src).body[0]
    if fmt == "class":
        return cdd.class_.parse.class_(node, **kw)
    if fmt == "pydantic":
        return cdd.pydantic.parse.pydantic(node, **kw)
    if fmt == "function":
        return cdd.function.parse.function(node, **kw)
    if fmt == "argparse":
        return cdd.argparse_function.parse.argparse_ast(node, **kw)
    if fmt in ("sqlalchemy", "sqlalchemy_hybrid", "sqlalchemy_table"):
        return getattr(cdd.sqlalchemy.parse, fmt)(node, **kw)
    raise KeyError(fmt)


def hop(fmt, ir, emit_kw=None, parse_kw=None):
    """-> (text, parsed IR).  fmt in class|pydantic|function|argparse|sqlalchemy*|json|doc_<style>."""
    m = load()
    cdd = m["cdd"]
    emit_kw, parse_kw = dict(emit_kw or {}), dict(parse_kw or {})
    if fmt == "json":
        sch = cdd.json_schema.emit.json_schema(deepcopy(ir), **emit_kw)
        text = json.dumps(sch)
        return text, cdd.json_schema.parse.json_schema(json.loads(text), **parse_kw)
    if fmt.startswith("doc_"):
        emit_kw.setdefault("emit_default_doc", True)
        parse_kw.setdefault("emit_default_doc", False)
        # a None value means "do not pass the argument": the library's own default applies
        emit_kw = {k: v for k, v in emit_kw.items() if v is not None}
        parse_kw = {k: v for k, v in parse_kw.items() if v is not None}
        text = cdd.docstring.emit.docstring(deepcopy(ir), docstring_format=fmt[4:], **emit_kw)
        return text, cdd.docstring.parse.docstring(text, **parse_kw)
    src, _node = emit_src(fmt, ir, **emit_kw)
    return src, parse_src(fmt, src, **parse_kw)
