"""
Python-module generator (DESIGN 4/C07 'gen_prog'): functions, async functions, classes with methods, nested defs,
signatures with positional / defaulted / annotated / *args / **kwargs / keyword-only parameters, one-line or
multi-line headers, decorators, docstrings in three styles (consistent with the signature or documenting a subset),
simple bodies, comments, blank lines.  A generated module is {"src": text, "feat": [labels]}.

`hazards` switches on the four shapes that are open findings (each under its own label):
  P19 async def with docstring, P26 comment inside a multi-line header, P27 one-line def, P28 raw docstring,
  P68 DECORATED def whose header line carries a trailing comment (the CST scanner then splits the docstring apart).
"""
from hypothesis import strategies as st

from vlib.gen_ir import descr, names, sentence

scal = st.sampled_from(["int", "str", "float", "bool", "Optional[int]", "List[str]"])
# annotations with brackets, parentheses, quotes, commas and operators inside (all valid where an annotation may stand)
rich_ann = st.sampled_from([
    "Annotated[int, Field(gt=0)]", "Tuple[()]", "Literal[(1, 2)]", "Union[int, type(None)]", "Callable[[int], str]",
    "Dict[str, int]", "'Forward'", "int | None", "(int)", "Tuple[int, ...]", "Literal[':', '->']", "os.PathLike",
])
ann = st.one_of(scal, scal, scal, rich_ann)
lit = st.one_of(st.integers(-9, 199).map(repr), st.sampled_from(["'s'", '"t"', "None", "True", "0.5", "(1, 2)", "[]", "-3.5", "'a:b'", "')'", "'->'", "lambda x: x"]))


@st.composite
def param(draw):
    return {
        "name": draw(names),
        "ann": draw(st.one_of(st.none(), ann)),
        "default": draw(st.one_of(st.none(), lit)),
        "doc": draw(descr),
        "doctyp": draw(st.one_of(st.none(), scal)),
    }


def doc_rest(ps, ret, head, types):
    out = [head, ""]
    for p in ps:
        out.append(":param %s: %s" % (p["name"], p["doc"]))
        if types and p["doctyp"]:
            out.append(":type %s: ```%s```" % (p["name"], p["doctyp"]))
        out.append("")
    if ret:
        out += [":return: %s" % ret[1], ":rtype: ```%s```" % ret[0]] if types else [":return: %s" % ret[1]]
    return out


def doc_google(ps, ret, head, types):
    out = [head, ""]
    if ps:
        out.append("Args:")
        for p in ps:
            out.append("  %s%s: %s" % (p["name"], " (%s)" % p["doctyp"] if types and p["doctyp"] else "", p["doc"]))
        out.append("")
    if ret:
        out += ["Returns:", "  %s:" % ret[0], "   %s" % ret[1]]
    return out


def doc_numpy(ps, ret, head, types):
    out = [head, ""]
    if ps:
        out += ["Parameters", "----------"]
        for p in ps:
            out += ["%s : %s" % (p["name"], p["doctyp"] or "object"), "    %s" % p["doc"]]
        out.append("")
    if ret:
        out += ["Returns", "-------", ret[0], "    %s" % ret[1]]
    return out


DOCS = {"rest": doc_rest, "google": doc_google, "numpydoc": doc_numpy}


@st.composite
def funcdef(draw, indent=0, method=False, depth=0, hazards=(), feat=None):
    feat = feat if feat is not None else []
    ps = draw(st.lists(param(), min_size=0, max_size=4, unique_by=lambda p: p["name"]))
    seen = False
    for p in ps:  # defaults must form a suffix among positional parameters
        if p["default"] is not None:
            seen = True
        elif seen:
            p["default"] = "None"
    kwonly = draw(st.lists(param(), max_size=2, unique_by=lambda p: p["name"]))
    kwonly = [k for k in kwonly if k["name"] not in {p["name"] for p in ps}]
    vararg, kwarg = draw(st.booleans()), draw(st.booleans())
    name = draw(names)
    is_async = ("P19" in hazards or True) and draw(st.integers(0, 4)) == 0 and depth == 0
    deco = draw(st.lists(st.sampled_from(["staticmethod" if method else "functools.wraps(print)", "deco", "deco(1, x=2)", "classmethod" if method else "deco2"]), max_size=2, unique=True))
    if "staticmethod" in deco and "classmethod" in deco:
        deco.remove("classmethod")
    static = "staticmethod" in deco
    first = "cls" if "classmethod" in deco else "self"
    ret_ann = draw(st.one_of(st.none(), ann))
    if ret_ann and ret_ann not in scal.elements:
        feat.append("rich-return-annotation")

    def fmt(p):
        return p["name"] + (": %s" % p["ann"] if p["ann"] else "") + ((" = %s" if p["ann"] else "=%s") % p["default"] if p["default"] is not None else "")

    pos = [fmt(p) for p in ps]
    if ps and draw(st.integers(0, 5)) == 0:
        k = draw(st.integers(1, len(ps)))  # positional-only marker after the k-th parameter
        pos.insert(k, "/")
        feat.append("positional-only")
    self_arg = first
    if method and not static and ps and all(p["default"] is not None for p in ps) and draw(st.integers(0, 5)) == 0:
        self_arg = first + "=None"
        feat.append("defaulted-self")
    args = ([self_arg] if method and not static else []) + pos
    if vararg:
        args.append("*args")
    elif kwonly:
        args.append("*")
    args += [fmt(k) for k in kwonly]
    if kwarg:
        args.append("**kwargs")
    if ps and any(p["default"] is not None for p in ps):
        feat.append("has-default")
    if vararg or kwarg:
        feat.append("star-args")
    if kwonly:
        feat.append("kw-only")
    if deco:
        feat.append("decorated")
    multiline = draw(st.booleans()) and len(args) > 1
    pad = " " * indent
    hdr = [pad + "@" + d for d in deco]
    defkw = "async def " if is_async else "def "
    if is_async:
        feat.append("async")
    style = draw(st.sampled_from([None, "rest", "google", "numpydoc"]))
    if is_async and "P19" not in hazards:
        style = None  # async def WITH a docstring is the open finding P19: only under its own label
    elif is_async and style:
        feat.append("hazard:P19-async-docstring")
    oneline = "P27" in hazards and not style and not multiline and draw(st.integers(0, 3)) == 0 and depth == 0
    if oneline:
        feat.append("hazard:P27-one-line-def")
        return hdr + [pad + defkw + name + "(" + ", ".join(args) + ")" + (" -> %s" % ret_ann if ret_ann else "") + ": return %s" % draw(lit)]
    if multiline:
        feat.append("multi-line-header")
        hdr.append(pad + defkw + name + "(")
        for i, a in enumerate(args):
            cmt = ""
            if "P26" in hazards and draw(st.integers(0, 3)) == 0:
                cmt = "  # about %s" % a.split(":")[0].split("=")[0].strip("* ")
                feat.append("hazard:P26-comment-in-header")
            hdr.append(pad + "    " + a + "," + cmt)
        hdr.append(pad + ")" + (" -> %s" % ret_ann if ret_ann else "") + ":")
    else:
        hdr.append(pad + defkw + name + "(" + ", ".join(args) + ")" + (" -> %s" % ret_ann if ret_ann else "") + ":")
    body = []
    bpad = pad + "    "
    # comments between the header's colon and the first statement / docstring: trailing on the header line
    # (`def f(a):  # noqa`) and / or on lines of their own
    if draw(st.integers(0, 5)) == 0 and (not deco or "P68" in hazards):
        hdr[-1] += draw(st.sampled_from(["  # noqa: E501", " # c", "  # type: ignore", "  # -> (x): y"]))
        feat.append("comment-after-header")
        if deco:
            feat.append("hazard:P68-decorated-def-with-header-comment")
    if draw(st.integers(0, 7)) == 0:
        body.append(bpad + "# note before the body")
        feat.append("comment-before-docstring")
    if depth == 0 and not is_async and draw(st.integers(0, 7)) == 0:
        # a stub: the body consists SOLELY of a docstring - informative, blank, or an IDE skeleton of bare fields
        kind = draw(st.sampled_from(["informative", "blank", "skeleton"]))
        feat.append("stub:" + kind)
        if kind == "informative":
            lines = DOCS[draw(st.sampled_from(["rest", "google", "numpydoc"]))](ps + kwonly, None, draw(sentence(2, 6)).capitalize() + ".", True)
        elif kind == "blank":
            lines = [draw(st.sampled_from(["", " ", "  "]))]
        else:
            lines = [":param %s:" % p["name"] for p in ps + kwonly] + [":return:"]
        if len(lines) == 1:
            return hdr + [bpad + '"""' + lines[0] + '"""']
        return hdr + [bpad + '"""'] + [(bpad + l) if l else "" for l in lines] + [bpad + '"""']
    if style:
        feat.append("doc:" + style)
        documented = [p for p in ps + kwonly if draw(st.booleans())] if draw(st.booleans()) else ps + kwonly
        if len(documented) < len(ps + kwonly):
            feat.append("doc-subset")
        if kwarg and draw(st.integers(0, 2)) == 0:
            # the docstring documents **kwargs as well (an entry called `kwargs`, with or without a type)
            documented = documented + [{"name": "kwargs", "ann": None, "default": None, "doc": draw(descr), "doctyp": draw(st.sampled_from([None, "dict", "Optional[dict]"]))}]
            feat.append("doc:kwargs-documented")
        ret = (draw(scal), draw(descr)) if draw(st.booleans()) else None
        head = draw(sentence(2, 6)).capitalize() + "."
        lines = DOCS[style](documented, ret, head, draw(st.booleans()))
        q = '"""'
        if "P28" in hazards and draw(st.integers(0, 3)) == 0:
            q = 'r"""'
            feat.append("hazard:P28-raw-docstring")
        body.append(bpad + q)
        body += [(bpad + l) if l else "" for l in lines]
        body.append(bpad + '"""')
    else:
        feat.append("doc:none")
    for i in range(draw(st.integers(1, 3))):
        kind = draw(st.sampled_from(["assign", "comment", "call", "if", "blank", "for", "semi", "ann-assign", "type-comment"]))
        if kind == "ann-assign":
            body.append(bpad + "%s: %s = %s" % (draw(names), draw(scal), draw(lit)))
            feat.append("body-annotated-assignment")
        elif kind == "type-comment":
            body.append(bpad + "%s = %s  # type: %s" % (draw(names), draw(lit), draw(scal)))
            feat.append("body-type-comment")
        elif kind == "assign":
            body.append(bpad + "%s = %s  # c%d" % (draw(names), draw(lit), i))
        elif kind == "comment":
            body.append(bpad + "# note %s" % draw(sentence(1, 3)))
        elif kind == "call":
            body.append(bpad + "print(%s)" % draw(lit))
        elif kind == "if":
            body += [bpad + "if %s:" % draw(lit), bpad + "    pass"]
        elif kind == "for":
            body += [bpad + "for _i in range(2):", bpad + "    print(_i)  # loop"]
        elif kind == "semi":
            body.append(bpad + "x1 = 1; x2 = 2")
        else:
            body.append("")
    if depth == 0 and draw(st.integers(0, 2)) == 0:
        feat.append("nested-def")
        body += draw(funcdef(indent=indent + 4, depth=1, hazards=hazards, feat=feat))
    body.append(bpad + "return %s" % draw(lit))
    return hdr + body


@st.composite
def classdef(draw, hazards=(), feat=None):
    feat = feat if feat is not None else []
    feat.append("class")
    name = draw(names).capitalize()
    bases = draw(st.sampled_from(["object", "Base, Mixin", ""]))
    out = ["class %s%s:" % (name, "(%s)" % bases if bases else "")]
    if draw(st.booleans()):
        out += ['    """', "    " + draw(sentence(2, 5)).capitalize() + ".", '    """']
    for _ in range(draw(st.integers(0, 2))):
        n = draw(names)
        ann = draw(st.booleans())
        if ann:
            feat.append("class-attr-annotated")
        tc = (not ann) and draw(st.integers(0, 3)) == 0
        if tc:
            feat.append("class-attr-type-comment")
        out.append("    %s%s = %s%s" % (n, ": " + draw(scal) if ann else "", draw(lit), "  # type: " + draw(scal) if tc else ""))
    for _ in range(draw(st.integers(1, 2))):
        out.append("")
        out += draw(funcdef(indent=4, method=True, hazards=hazards, feat=feat))
    return out


@st.composite
def module(draw, hazards=(), max_items=4):
    feat = []
    lines = []
    if draw(st.booleans()):
        lines += ['"""Module doc."""', ""]
    lines += ["import os  # keep", "import functools", "from typing import Optional, List", "", "# top comment", ""]
    for _ in range(draw(st.integers(1, max_items))):
        lines += draw(st.one_of(funcdef(hazards=hazards, feat=feat), classdef(hazards=hazards, feat=feat)))
        lines += ["", ""]
    lines.append("X = 1  # tail")
    return {"src": "\n".join(lines) + "\n", "feat": sorted(set(feat))}
