"""
E5 monitor: sys.addaudithook recorder (installed once per process, switched on/off), plus a file-system snapshot.
Events recorded while `recording()` is active: (event name, args summary, innermost cdd frame or None).
"""
import contextlib
import hashlib
import os
import sys

_STATE = {"on": False, "events": [], "installed": False}
WATCH_PREFIXES = ("open", "os.", "subprocess.", "socket.", "exec", "compile", "import", "ctypes.", "shutil.", "urllib.", "http.", "ftplib.", "smtplib.", "webbrowser.", "pty.", "builtins.input", "builtins.breakpoint", "code.", "marshal.", "pickle.")


def _hook(event, args):
    if not _STATE["on"]:
        return
    if not event.startswith(WATCH_PREFIXES):
        return
    _STATE["on"] = False  # no re-entrancy while we summarise
    try:
        try:
            caller = sys._getframe(1).f_code.co_filename  # the Python frame performing the audited operation
        except Exception:
            caller = "?"
        _STATE["events"].append((event, _summ(event, args), caller))
    finally:
        _STATE["on"] = True


def _summ(event, args):
    try:
        if event == "open":
            return (str(args[0]), str(args[1]), args[2] if len(args) > 2 else None)
        if event == "exec":
            co = args[0]
            return (getattr(co, "co_filename", "?"), getattr(co, "co_name", "?"), co)
        if event == "compile":
            src = args[0]
            return (None if src is None else (src[:200] if isinstance(src, (str, bytes)) else type(src).__name__), str(args[1]) if len(args) > 1 else None)
        if event == "import":
            return (str(args[0]),)
        return tuple(str(a)[:200] for a in args)
    except Exception as e:  # never let the monitor break the code under test
        return ("<unsummarisable %s>" % type(e).__name__,)


def install():
    if not _STATE["installed"]:
        sys.addaudithook(_hook)
        _STATE["installed"] = True


@contextlib.contextmanager
def recording():
    install()
    _STATE["events"] = []
    _STATE["on"] = True
    try:
        yield _STATE["events"]
    finally:
        _STATE["on"] = False


def write_events(events, only_from=None):
    """events that create / modify / delete file-system objects -> [(event, path)];
    only_from = path prefix the performing frame's file must have (e.g. the repository root)"""
    out = []
    for e in events:
        ev, a = e[0], e[1]
        if only_from is not None and not (len(e) > 2 and str(e[2]).startswith(only_from)):
            continue
        if ev == "open":
            mode, flags = a[1], a[2]
            writing = any(c in (mode or "") for c in "wax+") if mode not in (None, "None") else False
            if not writing and isinstance(flags, int) and flags & (os.O_WRONLY | os.O_RDWR | os.O_CREAT | os.O_TRUNC | os.O_APPEND):
                writing = True
            if writing:
                out.append((ev, a[0]))
        elif ev in ("os.mkdir", "os.remove", "os.rmdir", "os.rename", "os.symlink", "os.link", "os.truncate", "os.chmod", "os.chown", "os.utime", "os.mkfifo", "os.mknod", "shutil.copyfile", "shutil.move", "shutil.rmtree", "shutil.copytree", "shutil.copymode", "shutil.copystat", "os.replace", "os.unlink", "os.makedirs"):
            two = ev in ("os.rename", "os.replace", "os.symlink", "os.link", "shutil.copyfile", "shutil.move", "shutil.copytree", "shutil.copymode", "shutil.copystat")
            for p in a[: 2 if two else 1]:
                if p and p not in ("None", "-1"):
                    out.append((ev, p))
    return out


def snapshot(root):
    """{path: (type, size, mtime_ns, sha1)} for the whole tree under root"""
    out = {}
    for dp, dn, fn in os.walk(root):
        st = os.lstat(dp)
        out[dp] = ("dir", 0, st.st_mtime_ns, "")
        for f in fn:
            p = os.path.join(dp, f)
            st = os.lstat(p)
            try:
                h = hashlib.sha1(open(p, "rb").read()).hexdigest()
            except OSError:
                h = "?"
            out[p] = ("file", st.st_size, st.st_mtime_ns, h)
    return out


def snapshot_diff(before, after, ignore_dir_mtime=False):
    created = sorted(k for k in after if k not in before)
    deleted = sorted(k for k in before if k not in after)
    changed = []
    for k in before:
        if k in after and before[k] != after[k]:
            if ignore_dir_mtime and before[k][0] == "dir" and after[k][0] == "dir":
                continue
            changed.append(k)
    return created, deleted, sorted(changed)
