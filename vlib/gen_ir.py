"""
Hypothesis strategies for interface descriptions (DESIGN 4, 'Shared generator').

A generated interface is a JSON-able dict (so it can be hashed, saved and replayed):

    {"name": "Foo", "doc": "...", "params": [[name, {"typ":..,"doc":..,"default":..}], ...],
     "kinds": [...one label per param...], "returns": null | {"typ":..,"doc":..[,"default":..]}}

``to_ir`` turns it into the OrderedDict-based IR cdd works on.  Construction, not rejection.
"""
import keyword
from collections import OrderedDict

from hypothesis import strategies as st

NoneStr = "```(None)```"

# words that parse_adhoc_doc_for_typ / extract_default react to (the "documented type-hint triggers")
TRIGGERS = {
    "bool", "boolean", "dict", "dictionary", "false", "filename", "float", "frequency", "integer", "int64", "list",
    "number", "path", "quantity", "str", "string", "true", "tuple", "whether", "or", "of", "optional", "default",
    "defaults", "called", "directory", "floating", "none", "int", "if", "is", "in", "as", "to", "one", "used",
}
WORDS = [
    "alpha", "beta", "gamma", "delta", "value", "for", "the", "a", "model", "size", "rate", "when", "training",
    "layer", "input", "output", "name", "kind", "mode", "with", "this", "that", "each", "step", "count", "limit",
    "weight", "axis", "shape", "buffer", "window", "factor",
]
WORDS = [w for w in WORDS if w not in TRIGGERS]
TRIGGER_PHRASES = [
    "number", "whether", "list of", "string or", "path", "true if", "optional", "defaults to 5", "dictionary of",
    "int64", "`np` or `tf`", "one of", "if true", "a str", "int or float", "Default: 3", "default is x",
]

# also excluded: names of the builtins that occur in annotations (a class attribute `int: int = 0` re-binds `int`
# before its own annotation is evaluated - a shadowing the generator, not cdd, would be responsible for)
_RESERVED = {"return_type", "self", "cls", "argument_parser", "None", "True", "False", "int", "str", "float", "bool", "list", "dict", "tuple", "bytes", "object", "complex", "set", "type", "id", "np", "tf"}


def _name_ok(s):
    return not keyword.iskeyword(s) and s not in _RESERVED and not s.endswith("kwargs") and not s.endswith("_") and not keyword.issoftkeyword(s)


_plain_names = st.from_regex(r"[a-z][a-z0-9_]{0,8}", fullmatch=True).filter(_name_ok)
# ordinary names that END in `args` (not `kwargs`): the emitters single out `*args` / `**kwargs` by suffix tests
names = st.one_of(_plain_names, _plain_names, _plain_names, _plain_names, _plain_names, _plain_names, st.sampled_from(["num_args", "extra_args", "posargs", "n_args", "cli_args"]))


def sentence(minw=1, maxw=8):
    return st.lists(st.sampled_from(WORDS), min_size=minw, max_size=maxw).map(" ".join)


descr = st.builds(lambda s, dot: s + ("." if dot else ""), sentence(), st.booleans())
# punctuation that realistic descriptions carry (none of it is a documented trigger): comma lists, parentheses, hyphens,
# digits, colons, quotes, slashes, brackets, capitalised words, a second sentence
_PUNCT = [
    lambda a, b: "%s, %s and %s" % (a, b, a), lambda a, b: "%s (%s) %s" % (a, b, a), lambda a, b: "%s-%s %s" % (a, b, a),
    lambda a, b: "%s 3 %s 10" % (a, b), lambda a, b: "%s: %s %s" % (a, b, a), lambda a, b: "%s; %s" % (a, b),
    lambda a, b: "%s's %s" % (a, b), lambda a, b: '%s "%s" %s' % (a, b, a), lambda a, b: "%s/%s" % (a, b),
    lambda a, b: "%s [%s]" % (a, b), lambda a, b: "%s %s" % (a.capitalize(), b.capitalize()), lambda a, b: "%s_%s %s" % (a, b, a),
    lambda a, b: "%s. %s %s" % (a, b.capitalize(), a), lambda a, b: "%s = %s" % (a, b), lambda a, b: "%s > %s" % (a, b),
    lambda a, b: "100%% %s" % a, lambda a, b: "%s & %s" % (a, b), lambda a, b: "%s #1" % a, lambda a, b: "(%s)" % a, lambda a, b: "%s -- %s" % (a, b),
]


def second_word_slash(s):
    """the ad-hoc `An Integer/Float ...` type syntax of parse_adhoc_doc_for_typ: a slash inside the SECOND word of a
    description is a type-hint trigger (found by the thorough tier: 'training input/input' -> Union[input]; measured
    over word positions 1..5: only the second). Such descriptions belong to C08's wild domain, not to the
    exact-round-trip domain"""
    w = (s or "").split()
    return len(w) > 1 and "/" in w[1]


rich_descr = st.builds(lambda f, a, b, dot: f(a, b) + ("." if dot else ""), st.sampled_from(_PUNCT), sentence(1, 3), sentence(1, 3), st.booleans()).filter(lambda s: not second_word_slash(s))
mixed_descr = st.one_of(descr, descr, rich_descr)
HYPHENATED = ["hyper-parameter", "pre-trained", "look-up", "re-use", "well-known", "on-the-fly", "x-axis", "non-zero"]


@st.composite
def boundary_descr(draw):
    """a description whose length sweeps across the word-wrap column (100): plain words and hyphenated words, padded
    to a drawn length, so that the wrap point falls at every position relative to the last words / the default"""
    target = draw(st.integers(45, 115))
    words = []
    while len(" ".join(words)) < target:
        words.append(draw(st.sampled_from(WORDS + HYPHENATED)) if draw(st.integers(0, 3)) else draw(st.sampled_from(HYPHENATED)))
    text = " ".join(words)[:target].rstrip(" -")
    return text + ("." if draw(st.booleans()) else "")


@st.composite
def long_token_descr(draw):
    """a description holding ONE whitespace-free token longer than the wrap width (a URL, a file path, a dotted module
    path): word-wrapping may move it to a line of its own but must never cut it"""
    kind = draw(st.sampled_from(["url", "path", "dotted"]))
    segs = draw(st.lists(st.sampled_from(WORDS + ["v2", "models", "weights", "resnet50", "checkpoint_0001", "x86_64"]), min_size=14, max_size=24))
    if kind == "url":
        tok = "https://example.org/" + "/".join(segs)
    elif kind == "path":
        tok = "/usr/share/" + "/".join(segs)
    else:
        tok = "pkg." + ".".join(w.replace("-", "_") for w in segs)
    while len(tok) <= 104:
        tok += "_more"
    pre, post = draw(sentence(2, 5)), draw(st.one_of(st.just(""), sentence(1, 4)))
    return ("%s %s %s" % (pre, tok, post)).strip() + ("." if draw(st.booleans()) and kind != "dotted" else "")


multiword_str = st.sampled_from(["hello wide world", "fast mode", "a b", "two words", "AA-AA", "left-to-right text", "x y z w", "North West"])
# legal non-ASCII identifiers (already NFKC-normalised, as the Python parser would make them)
unicode_names = st.sampled_from(["prénom", "größe", "naïve", "名前", "住所", "π", "ñandú", "данные", "x²".replace("²", "_2"), "café_size"])
rich_names = st.one_of(
    names, names, unicode_names,
    st.from_regex(r"_?[a-z][a-zA-Z0-9]{0,6}([A-Z][a-z0-9]{1,4}){0,2}", fullmatch=True).filter(_name_ok),
    st.from_regex(r"[A-Z][A-Z0-9_]{0,5}[A-Z0-9]", fullmatch=True).filter(_name_ok),
)
long_descr = st.builds(lambda s, dot: s + ("." if dot else ""), sentence(10, 22), st.booleans())
# Literal members: letters only, or with digits / underscores / a dash (`float32`, `channels_first`, `utf-8`)
lit_member = st.one_of(
    st.from_regex(r"[a-z]{1,6}", fullmatch=True),
    st.from_regex(r"[a-z][a-z0-9_]{1,7}", fullmatch=True).filter(lambda s: not s.endswith("_")),
    st.from_regex(r"[a-z]{1,4}-[a-z0-9]{1,3}", fullmatch=True),
    st.from_regex(r"[A-Z][a-zA-Z0-9]{1,5}", fullmatch=True),
)
# plain string defaults: words, also with inner blanks and the punctuation real defaults carry ("Hello!", "R&D", "a|b",
# "$HOME", "x^2", "*", "@me"); never empty, never with a dot / quote / back-tick / colon (finding P12)
plain_str = st.one_of(
    st.from_regex(r"[A-Za-z][A-Za-z0-9_/~-]{0,10}", fullmatch=True),
    st.from_regex(r"[A-Za-z][A-Za-z0-9_/~-]{0,10}", fullmatch=True),
    st.from_regex(r"[A-Za-z$@*][A-Za-z0-9_/~ !*&|$@^+=-]{0,8}[A-Za-z0-9!*]", fullmatch=True),
).filter(lambda s: s not in ("None", "True", "False") and "  " not in s)
ints = st.one_of(st.integers(-(10**6), 10**6), st.sampled_from([0, 1, -1, 7, -5, -100, -101, 255, 10**9, -(10**12)]))
floats = st.one_of(
    st.floats(allow_nan=False, allow_infinity=False, width=32).map(lambda f: float(repr(round(f, 4)))),
    st.sampled_from([0.5, -0.5, 1e-07, 5.0, -2.25, 1e20, -3e-05, 0.0, 100.0]),
)

# nested / less common annotations (all resolvable from `typing` + builtins; none has a default)
NESTED_TYPES = [
    "Optional[List[str]]", "Dict[str, int]", "Tuple[int, str]", "Union[int, str, float]", "Callable[[int], str]",
    "Optional[Union[int, str]]", "List[List[int]]", "Optional[Literal['a', 'b']]", "Set[str]", "Sequence[int]",
    "Mapping[str, Any]", "Any", "object", "bytes", "complex", "tuple", "Type[int]", "Iterable[str]", "Tuple[int, ...]",
]
_PLAIN_RE = __import__("re").compile(r"^(?:[A-Za-z][A-Za-z0-9_/~-]{0,10}|[A-Za-z$@*][A-Za-z0-9_/~ !*&|$@^+=-]{0,16}[A-Za-z0-9!*])$")


def is_plain_str(s):
    """the strict domain of string defaults (what `plain_str` generates)"""
    return bool(_PLAIN_RE.match(s)) and s not in ("None", "True", "False") and "  " not in s


KINDS = {
    "docstring": ["int", "float", "str", "bool", "optint", "optstr", "optbool", "optfloat", "literal", "optliteral", "list", "union", "dotted", "nested"],
    "common": ["int", "float", "str", "bool", "optint", "optstr", "optbool", "optfloat", "literal"],
    "executable": ["int", "float", "str", "bool", "optint", "optstr", "optbool", "optfloat", "literal", "optliteral", "list", "union", "nested"],
    "json": ["int", "float", "str", "bool", "optint", "optstr", "optbool", "optfloat", "literal", "optliteral", "dict", "jlist", "optdict", "optlist"],
}
KINDS["signature"] = KINDS["docstring"]


def default_label(d):
    if d is None:
        return "nodefault"
    if d == NoneStr:
        return "d:None"
    if isinstance(d, bool):
        return "d:bool"
    if isinstance(d, int):
        return "d:neg-int" if d < 0 else ("d:zero-int" if d == 0 else "d:int")
    if isinstance(d, float):
        return "d:float-exp" if "e" in repr(d) else ("d:neg-float" if d < 0 else "d:float")
    if isinstance(d, str):
        return "d:code" if d.startswith("(") or d.startswith("```") else "d:str"
    if isinstance(d, (list, dict)):
        return "d:collection"
    return "d:other"


@st.composite
def typed_param(draw, kinds, must_default=False, doc=descr, min_literal=1, collection_defaults=False):
    kind = draw(st.sampled_from(kinds))
    p = {}
    has_default = True if must_default else draw(st.booleans())
    d = None
    if kind == "int":
        p["typ"], d = "int", draw(ints)
    elif kind == "float":
        p["typ"], d = "float", draw(floats)
    elif kind == "str":
        p["typ"], d = "str", draw(plain_str)
    elif kind == "bool":
        p["typ"], d = "bool", draw(st.booleans())
    elif kind in ("optint", "optstr", "optbool", "optfloat"):
        inner = kind[3:]
        p["typ"] = "Optional[%s]" % inner
        base = {"int": ints, "str": plain_str, "bool": st.booleans(), "float": floats}[inner]
        d = draw(st.one_of(base, st.just(NoneStr)))
    elif kind in ("literal", "optliteral"):
        ms = draw(st.lists(lit_member, min_size=min_literal, max_size=4, unique=True))
        p["typ"] = "Literal[%s]" % ", ".join(repr(m) for m in ms)
        d = draw(st.sampled_from(ms))
        if kind == "optliteral":
            p["typ"] = "Optional[%s]" % p["typ"]
            if draw(st.booleans()):
                d = NoneStr
    elif kind == "list":
        p["typ"] = "List[%s]" % draw(st.sampled_from(["int", "str", "float"]))
        has_default = False
    elif kind == "union":
        p["typ"] = draw(st.sampled_from(["Union[int, str]", "Union[str, float]"]))
        has_default = False
    elif kind == "nested":
        p["typ"] = draw(st.sampled_from(NESTED_TYPES))
        has_default = False
    elif kind == "dotted":
        p["typ"] = draw(st.sampled_from(["np.ndarray", "tf.data.Dataset", "Callable"]))
        d = "(np.zeros(%d))" % draw(st.integers(0, 9))
        has_default = has_default and not must_default and draw(st.booleans())
    elif kind in ("dict", "optdict"):
        p["typ"] = "dict" if kind == "dict" else "Optional[dict]"
        d = draw(st.sampled_from([{}, {"k": 1}, {"a": "b", "n": None}, {"k": {"n": [1, 2]}}])) if collection_defaults else None
        has_default = has_default and collection_defaults
    elif kind in ("jlist", "optlist"):
        p["typ"] = "list" if kind == "jlist" else "Optional[list]"
        d = draw(st.sampled_from([[], ["a"], [1, 2], [[1], [2]], [{"k": 1}]])) if collection_defaults else None
        has_default = has_default and collection_defaults
    p["doc"] = draw(doc)
    if has_default and d is not None:
        p["default"] = d
    return kind, p


def can_default(kind):
    return kind not in ("list", "union", "dict", "optdict", "jlist", "optlist", "nested")


@st.composite
def wrap_boundary_interface(draw):
    """1..3 parameters built to put the 100-column wrap point inside / next to a hyphenated word, a multi-word string
    default or the 'Defaults to' sentence (ReST and numpydoc wrap; google does not)"""
    n = draw(st.integers(1, 3))
    ns = draw(st.lists(st.from_regex(r"[a-z]{1,6}", fullmatch=True).filter(_name_ok), min_size=n, max_size=n, unique=True))
    ps, kinds = [], []
    for _ in ns:
        k = draw(st.sampled_from(["str", "str", "int", "literal", "float"]))
        p = {"doc": draw(boundary_descr())}
        if k == "str":
            p["typ"], p["default"] = "str", draw(multiword_str)
        elif k == "int":
            p["typ"], p["default"] = "int", draw(ints)
        elif k == "float":
            p["typ"], p["default"] = "float", draw(floats)
        else:
            ms = draw(st.lists(st.sampled_from(["fast mode", "slow mode", "auto", "semi-auto", "off"]), min_size=2, max_size=3, unique=True))
            p["typ"], p["default"] = "Literal[%s]" % ", ".join(map(repr, ms)), draw(st.sampled_from(ms))
        ps.append(p)
        kinds.append("wrap-boundary:" + k)
    return {"name": "Foo", "doc": draw(st.sampled_from(["", "Some summary."])), "params": [[a, p] for a, p in zip(ns, ps)], "kinds": kinds, "returns": None}


@st.composite
def interface(draw, profile="docstring", min_params=0, max_params=7, suffix=True, returns=True, ret_default=False, min_literal=1, doc=descr, header=True, name_strategy=None):
    kinds_allowed = KINDS[profile]
    n = draw(st.one_of(st.integers(min_params, max_params), st.integers(max(min_params, 2), min(max_params, 5))))
    ns = draw(st.lists(names if name_strategy is None else name_strategy, min_size=n, max_size=n, unique=True))
    ps = [draw(typed_param(kinds_allowed, min_literal=min_literal, doc=doc, collection_defaults=(profile == "json" and not suffix))) for _ in ns]
    if suffix:
        seen = False
        defk = [k for k in kinds_allowed if can_default(k) and k != "dotted"]
        for i, (k, p) in enumerate(ps):
            if "default" in p:
                seen = True
            elif seen:
                ps[i] = draw(typed_param(defk, must_default=True, min_literal=min_literal, doc=doc))
    ret = None
    if returns and draw(st.booleans()):
        ret = {"typ": draw(st.sampled_from(["int", "str", "bool", "List[int]", "Optional[str]", "float"])), "doc": draw(descr)}
        if ret_default and draw(st.booleans()):
            ret["default"] = {"int": 3, "str": "res", "bool": True, "float": 0.25}.get(ret["typ"], NoneStr)
    hdr = ""
    if header and draw(st.integers(0, 9)) != 0:
        hdr = draw(
            st.builds(
                lambda a, b: a.capitalize() + "." + ((" " + b.capitalize() + ".") if b else ""),
                sentence(2, 8),
                st.one_of(st.just(""), sentence(2, 6)),
            )
        )
    return {
        "name": "Foo",
        "doc": hdr,
        "params": [[nm, p] for nm, (_k, p) in zip(ns, ps)],
        "kinds": [k for k, _p in ps],
        "returns": ret,
    }


def to_ir(case, name=None):
    """JSON case -> cdd IR (fresh objects every time: emitters mutate what they are given)."""
    import copy

    params = OrderedDict((nm, copy.deepcopy(p)) for nm, p in case["params"])
    ret = None
    if case.get("returns") is not None:
        ret = OrderedDict((("return_type", copy.deepcopy(case["returns"])),))
    return {"name": name or case.get("name", "Foo"), "type": "static", "doc": case.get("doc", ""), "params": params, "returns": ret}


def labels_of(case):
    out = ["n_params=%d" % min(len(case["params"]), 8)]
    for k, (_n, p) in zip(case["kinds"], case["params"]):
        out.append("kind:" + k)
        out.append(default_label(p.get("default")))
    if case.get("returns") is not None:
        out.append("has-returns")
    if not case.get("doc"):
        out.append("empty-header")
    if any(len(w) > 100 for _n, p in case["params"] for w in (p.get("doc") or "").split()):
        out.append("descr:long-token")
    return out
