"""
The one table of equivalences oracles may use (DESIGN R2).  Nothing else is normalised.
"""
import re

from vlib.gen_ir import NoneStr

ABSENT = "<absent>"
_DEFAULTS_RE = re.compile(r"\s*Defaults?\s+to\b.*$", re.S)


def normdoc(d, strip_default=True):
    """description equality 'up to whitespace and a terminal full stop'; the 'Defaults to ...'
    sentence is presentation of the default, not description."""
    if d is None:
        return ""
    if strip_default:
        d = _DEFAULTS_RE.sub("", d)
    return " ".join(d.split()).rstrip(".").rstrip()


def is_optional(typ):
    return isinstance(typ, str) and typ.startswith("Optional[")


def default_view(p, typ=None, absent_is_none=False):
    """(python type name, value) of a param's default; for Optional types absent == NoneStr."""
    d = p.get("default", ABSENT) if p is not None else ABSENT
    t = typ if typ is not None else (p or {}).get("typ")
    if d == ABSENT and (is_optional(t) or absent_is_none):
        d = NoneStr
    return (type(d).__name__, d)


def literal_members(typ):
    """members of a (possibly Optional-wrapped) Literal[...] type string, or None."""
    import ast

    if not isinstance(typ, str) or "Literal[" not in typ:
        return None
    inner = typ[typ.index("Literal[") + len("Literal") :]
    depth = 0
    for i, ch in enumerate(inner):
        depth += ch == "["
        depth -= ch == "]"
        if depth == 0:
            inner = inner[: i + 1]
            break
    try:
        v = ast.literal_eval(inner)
    except Exception:
        return None
    return list(v)
