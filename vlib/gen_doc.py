"""
Grammar-based docstring text generator (DESIGN 4, 'gen_doc').

docstr(): header paragraphs built from *marker words* (hw0.., so that absorption into a type/default is detectable),
a parameter/return section in one of the three styles, an optional footer (Notes / Examples / doctest lines with
marker words fw0..), 0..3 blank lines between parts, indentation 0/4/8.
Returns a JSON-able dict describing the parts as well as the text.
"""
from hypothesis import strategies as st

from vlib.gen_ir import names

hw = st.lists(st.sampled_from(["hw%d" % i for i in range(30)]), min_size=1, max_size=7).map(" ".join)
fw = st.lists(st.sampled_from(["fw%d" % i for i in range(30)]), min_size=1, max_size=7).map(" ".join)
scal = st.sampled_from(["int", "str", "Optional[bool]", "List[int]", "float"])


@st.composite
def section(draw, style, allow_star=False, multiline=False, returns_only=False):
    n = draw(st.integers(1, 4))
    if returns_only and draw(st.integers(0, 5)) == 0:
        n = 0  # a function without parameters: the section consists of the return entry alone
    ns = draw(st.lists(names.filter(lambda s: s[:2] not in ("hw", "fw", "pd", "rd")), min_size=n, max_size=n, unique=True))
    if allow_star and draw(st.integers(0, 3)) == 0:
        ns = ns + ["*args"] if style != "numpydoc" else ns + ["*args"]
    if allow_star and draw(st.integers(0, 3)) == 0:
        ns = ns + ["**kwargs"]
    ret = draw(st.booleans()) or n == 0
    L, params = [], []
    seen_default = False
    for x in ns:
        typ = draw(scal)
        has_typ = draw(st.booleans()) or style != "rest"
        # a default consistent with the documented type (an inconsistent pair is the generator's fault, not cdd's)
        dflt = draw(st.one_of(st.none(), st.sampled_from({"int": ["5", "-3"], "str": ["'txt'"], "Optional[bool]": ["True"], "float": ["0.5"]}.get(typ, [None]))))
        doc = "pd%s" % x.strip("*")
        more = "more pd%s text" % x.strip("*") if multiline and draw(st.integers(0, 2)) == 0 else None
        if seen_default and dflt is None:  # keep defaults a suffix (the quantified domain for Google/NumPy)
            dflt = {"int": "5", "str": "'txt'", "Optional[bool]": "True", "float": "0.5"}.get(typ)
            if dflt is None:
                typ, dflt = "int", "7"
        seen_default = seen_default or dflt is not None
        tail = ("" if dflt is None else ". Defaults to %s" % dflt)
        if style == "rest":
            L.append(":param %s: %s%s" % (x, doc, tail))
            if more:
                L.append("    " + more)
            if has_typ:
                L.append(":type %s: ```%s```" % (x, typ))
            if draw(st.booleans()):
                L.append("")
        elif style == "google":
            if not L:
                L.append("Args:")
            L.append("  %s (%s): %s%s" % (x, typ, doc, tail))
            if more:
                L.append("      " + more)
        else:
            if not L:
                L += ["Parameters", "----------"]
            L += ["%s : %s" % (x, typ), "    %s%s" % (doc, tail)]
            if more:
                L.append("    " + more)
        params.append({"name": x, "typ": typ if has_typ else None, "default": dflt, "doc": doc})
    rtyp = None
    if ret:
        rtyp = draw(scal)
        if style == "rest":
            L += [":return: rd", ":rtype: ```%s```" % rtyp]
        elif style == "google":
            L += ([""] if L else []) + ["Returns:", "  %s:" % rtyp, "   rd"]
        else:
            L += ([""] if L else []) + ["Returns", "-------", rtyp, "    rd"]
    return L, params, rtyp


FOOT_HEADS = [["Notes:", "  "], ["Example:"], [">>> f(1)"], [], ["Usage::"], ["Raises:", "  ValueError: fwx"], ["See Also", "--------"]]


@st.composite
def docstr(draw, styles=("rest", "google", "numpydoc"), allow_star=False, multiline=False, footer=True, indents=(0, 4, 8), mentions=False, returns_only=False):
    style = draw(st.sampled_from(styles))
    paras = draw(st.lists(st.lists(hw, min_size=1, max_size=3), min_size=0, max_size=3))
    mention = None
    if mentions and paras and draw(st.integers(0, 3)) == 0:
        # header prose that MENTIONS a section keyword in the middle of a line ("... listed under Parameters below",
        # "Empty input is fine. Returns hw3 then"): only a line that STARTS with a token opens a section.  Keywords of
        # The colon-carrying tokens (`:param`, `Args:` ...) are left out: the style detector and the ReST scanner look
        # for them anywhere in the text (a false positive the source documents); the two plain English words are not
        mention = draw(st.sampled_from(["Returns", "Parameters"]))
        i = draw(st.integers(0, len(paras) - 1))
        j = draw(st.integers(0, len(paras[i]) - 1))
        paras = [list(p) for p in paras]
        paras[i][j] = paras[i][j] + " " + mention + draw(st.sampled_from(["", " hw29", " hw28 hw27."]))
    L = []
    for k, p in enumerate(paras):
        last = k == len(paras) - 1
        # 0 blank lines after the LAST paragraph = the section follows the header text directly
        L += p + [""] * draw(st.integers(0 if last else 1, 2))
    header_lines = [l for l in L if l]
    L += [""] * draw(st.integers(0, 2))
    sec, params, rtyp = draw(section(style, allow_star=allow_star, multiline=multiline, returns_only=returns_only))
    L += sec
    foot = footer and draw(st.booleans())
    foot_lines = []
    if foot:
        heads = [h for h in FOOT_HEADS if not (h and h[0] == "See Also" and style != "numpydoc")]  # underlined heads are numpydoc syntax
        foot_lines = draw(st.sampled_from(heads)) + draw(st.lists(fw, min_size=1, max_size=3))
        L += [""] * draw(st.integers(1, 3)) + foot_lines
    ind = draw(st.sampled_from(indents))
    text = "\n".join((" " * ind + l) if l else "" for l in L) + ("\n" if draw(st.booleans()) else "")
    lead_nl = draw(st.booleans())
    if lead_nl:
        text = "\n" + text
    return {
        "style": style,
        "text": text,
        "indent": ind,
        "header_lines": header_lines,
        "params": params,
        "rtyp": rtyp,
        "footer": foot,
        "footer_lines": foot_lines,
        "section": "\n".join(sec),
        "lead_nl": lead_nl,
        "mention": mention,
    }
