"""
Runner shared by every check (DESIGN.md section 2).

A check module (checks/Cxx.py) exposes

    ID            "C01"
    TIERS         {"quick": {"shards": 4, ...free-form numbers the layers read...}, "thorough": {...}}
    RULE          text of the non-triviality rule (goes into the evidence)
    LAYERS        [("name", fn)]       fn(ctx) runs a layer inside one shard
    replay(case)  -> Result            re-runs the oracle on a saved case (no Hypothesis)
    ASSUMPTIONS   list of strings (optional)
    FLOOR         {"quick": n, "thorough": n} minimum distinct non-trivial cases (vacuity guard)

The parent process (``./check Cxx tier``) replays the witnesses of known_findings.json,
starts the shards as *fresh interpreters* (so the current working tree of the repository
is what gets imported), merges their statistics, writes evidence/<id>.json and prints
``VIOLATION property=<id> replay=<path>`` lines.  Exit 0 / 1 / 2 (2 = harness error).
"""
from __future__ import annotations

import collections
import contextlib
import hashlib
import importlib
import io
import json
import os
import signal
import subprocess
import sys
import tempfile
import time
import traceback

ROOT = os.path.dirname(os.path.dirname(os.path.abspath(__file__)))
REPO = os.path.abspath(os.environ.get("VERIF_REPO", "/repo"))
# development aid (tools/mutsweep.py): evidence / replay files of a run against a scratch tree go elsewhere
OUT = os.path.abspath(os.environ.get("VERIF_OUT", "") or os.path.dirname(os.path.dirname(os.path.abspath(__file__))))
DEPS = os.path.join(ROOT, ".deps")
CASE_TIMEOUT_S = 30
MAX_HASHES = 400_000
MAX_SAMPLES = 8
MAX_VIOLATIONS = 5


def setup_paths():
    """cdd from VERIF_REPO first; offline deps (jsonschema, atheris) last."""
    for p in (ROOT, REPO):
        if p in sys.path:
            sys.path.remove(p)
    sys.path.insert(0, ROOT)
    sys.path.insert(0, REPO)
    if os.path.isdir(DEPS) and DEPS not in sys.path:
        sys.path.append(DEPS)
    sys.dont_write_bytecode = True


class CaseTimeout(BaseException):
    """Raised by the per-case watchdog (never a verdict, see DESIGN 'Watchdog')."""


class Violation(Exception):
    """Raised inside a Hypothesis test when a clause fails that no open finding covers."""


class HarnessError(Exception):
    pass


def canon(obj):
    return json.dumps(obj, sort_keys=True, default=repr, ensure_ascii=True)


def case_hash(obj):
    return hashlib.sha1(canon(obj).encode()).hexdigest()[:16]


class Result:
    """What one oracle evaluation produced."""

    __slots__ = ("failures", "nontrivial", "labels", "known", "exc", "info")

    def __init__(self):
        self.failures = []  # [(clause, detail)]
        self.nontrivial = False
        self.labels = []
        self.known = []  # finding ids whose class absorbed a clause failure
        self.exc = []  # bucketed cdd exceptions (acceptable ones)
        self.info = {}

    def fail(self, clause, detail=""):
        self.failures.append((clause, str(detail)[:600]))

    def label(self, *ls):
        self.labels.extend(ls)

    def covered(self, fid):
        self.known.append(fid)

    def as_json(self):
        return {"failures": self.failures, "known": self.known, "labels": self.labels}


class Findings:
    """known_findings.json: read-only registry.  ``is_open(fid)`` gates every relaxation."""

    def __init__(self, strict=False):
        path = os.path.join(ROOT, "known_findings.json")
        self.entries = json.load(open(path))["findings"] if os.path.exists(path) else []
        self.strict = strict
        self._open = {e["id"] for e in self.entries if e.get("status") == "open"}

    def is_open(self, fid):
        return (not self.strict) and fid in self._open

    def for_property(self, pid):
        return [e for e in self.entries if pid in e.get("properties", [e.get("property")])]


FINDINGS = Findings()


def set_strict(flag):
    FINDINGS.strict = flag


def is_open(fid):
    return FINDINGS.is_open(fid)


def exc_bucket(e):
    """(type, innermost cdd frame) - the key exceptions are bucketed by."""
    tb = traceback.extract_tb(e.__traceback__)
    frs = [f for f in tb if os.sep + "cdd" + os.sep in f.filename]
    fr = frs[-1] if frs else (tb[-1] if tb else None)
    where = "%s:%s" % (os.path.basename(fr.filename), fr.name) if fr else "?"
    return "%s@%s" % (type(e).__name__, where)


def from_cdd(e):
    tb = traceback.extract_tb(e.__traceback__)
    return any(f.filename.startswith(REPO + os.sep) for f in tb)


@contextlib.contextmanager
def quiet():
    """cdd prints to stdout/stderr in places; keep check output clean."""
    out, err = sys.stdout, sys.stderr
    sys.stdout, sys.stderr = io.StringIO(), io.StringIO()
    try:
        yield
    finally:
        sys.stdout, sys.stderr = out, err


def _alarm(signum, frame):
    raise CaseTimeout()


@contextlib.contextmanager
def watchdog(seconds=CASE_TIMEOUT_S):
    old = signal.signal(signal.SIGALRM, _alarm)
    signal.setitimer(signal.ITIMER_REAL, seconds)
    try:
        yield
    finally:
        signal.setitimer(signal.ITIMER_REAL, 0)
        signal.signal(signal.SIGALRM, old)


class Stats:
    def __init__(self):
        self.evaluations = 0
        self.hashes = set()
        self.labels = collections.Counter()
        self.known = collections.Counter()
        self.exc = collections.Counter()
        self.samples = []
        self.violations = []
        self.timeouts = 0
        self.skipped_deadline = 0
        self.layers = {}
        self.notes = []

    def dump(self):
        return {
            "evaluations": self.evaluations,
            "hashes": sorted(self.hashes),
            "labels": dict(self.labels),
            "known": dict(self.known),
            "exc": dict(self.exc),
            "samples": self.samples,
            "violations": self.violations,
            "timeouts": self.timeouts,
            "skipped_deadline": self.skipped_deadline,
            "layers": self.layers,
            "notes": self.notes,
        }


class Ctx:
    """Per-shard context handed to every layer function."""

    def __init__(self, mod, tier, seed, shard, nshards, deadline):
        self.mod, self.tier, self.seed = mod, tier, seed
        self.shard, self.nshards, self.deadline = shard, nshards, deadline
        self.cfg = mod.TIERS[tier]
        self.stats = Stats()
        self.layer = None

    # ---- seeds -------------------------------------------------------------------
    def derived_seed(self, tag=""):
        h = hashlib.sha256(("%s|%s|%s|%s" % (self.mod.ID, self.seed, self.shard, tag)).encode()).digest()
        return int.from_bytes(h[:8], "big")

    def expired(self):
        return time.time() > self.deadline

    # ---- recording ---------------------------------------------------------------
    def record(self, case, res, count=True):
        """Fold one oracle result into the statistics; returns the uncovered failures."""
        st = self.stats
        if count:
            st.evaluations += 1
            lay = st.layers.setdefault(self.layer or "-", {"evaluations": 0, "nontrivial": 0})
            lay["evaluations"] += 1
            for l in res.labels:
                st.labels[l] += 1
            for k in res.known:
                st.known[k] += 1
            for x in res.exc:
                st.exc[x] += 1
            if res.nontrivial:
                lay["nontrivial"] += 1
                if len(st.hashes) < MAX_HASHES:
                    st.hashes.add(case_hash(case))
                if len(st.samples) < MAX_SAMPLES and (st.evaluations % 7 == 1 or len(st.samples) < 2):
                    st.samples.append({"layer": self.layer, "case": _shorten(case)})
        return res.failures

    def violation(self, case, failures):
        if len(self.stats.violations) < MAX_VIOLATIONS:
            self.stats.violations.append({"layer": self.layer, "case": case, "failures": failures})

    def evaluate(self, oracle, case, count=True):
        try:
            with watchdog():
                res = oracle(case)
        except CaseTimeout:
            self.stats.timeouts += 1
            return []
        return self.record(case, res, count=count)

    # ---- Hypothesis driver ---------------------------------------------------------
    def run_given(self, layer, strategy, oracle, max_examples, shrink_budget=None):
        """@given(strategy) -> oracle(case) -> Result; shrinks the first uncovered failure."""
        import hypothesis
        from hypothesis import HealthCheck, Phase, given, settings

        self.layer = layer
        if shrink_budget is None:
            shrink_budget = 300 if self.tier == "quick" else 1500
        # "seen" = hashes of every case that failed so far: once the shrink budget is spent, unseen candidates are
        # passed without evaluation (so the shrinker stops), cases that failed before are evaluated truthfully (so
        # Hypothesis' final replay of *its* best example reproduces and no Flaky error arises).  The last failing
        # execution is the final replay, i.e. Hypothesis' minimal example.
        state = {"failed": False, "best": None, "seen": {}, "shrinks": 0, "t_fail": None}
        shrink_seconds = self.cfg.get("shrink_s", 60 if self.tier == "quick" else 300)

        @hypothesis.seed(self.derived_seed(layer))
        @settings(
            max_examples=max_examples,
            database=None,
            deadline=None,
            derandomize=False,
            report_multiple_bugs=False,
            print_blob=False,
            suppress_health_check=list(HealthCheck),
            phases=[Phase.generate, Phase.shrink],
        )
        @given(strategy)
        def test(case):
            if state["failed"]:
                h = case_hash(case)
                if h in state["seen"]:
                    # the same case reached through another choice sequence: the oracle is deterministic, do not pay
                    # for it again (matters when one failing evaluation costs seconds)
                    state["best"] = (case, state["seen"][h])
                    raise Violation(state["seen"][h][0][0])
                state["shrinks"] += 1
                spent = state["shrinks"] > shrink_budget or time.time() - state["t_fail"] > shrink_seconds
                if spent:
                    return
            elif self.expired():
                self.stats.skipped_deadline += 1
                return
            failures = self.evaluate(oracle, case, count=not state["failed"])
            if failures:
                if not state["failed"]:
                    state["t_fail"] = time.time()
                state.update(failed=True, best=(case, failures))
                state["seen"][case_hash(case)] = failures
                raise Violation(failures[0][0])

        try:
            with _no_hypothesis_noise():
                test()
        except Violation:
            case, failures = state["best"]
            self.violation(case, failures)
        except Exception as e:
            # an error raised by Hypothesis' shrinker itself (seen: ValueError in intervalsets) after a failure was
            # found must not lose the finding: report the best failing case seen so far, un-minimised
            if not state["failed"] or isinstance(e, HarnessError):
                raise
            self.stats.notes.append("shrinking aborted by %s: %s" % (type(e).__name__, str(e)[:120]))
            case, failures = state["best"]
            self.violation(case, failures)
        finally:
            self.layer = None
        return state["best"]

    def run_machine(self, layer, machine_cls, max_examples, step_count):
        """Stateful layer; the machine itself calls ctx.record / raises Violation."""
        import hypothesis
        from hypothesis import HealthCheck, Phase, settings
        from hypothesis.stateful import run_state_machine_as_test

        self.layer = layer
        try:
            with _no_hypothesis_noise():
                run_state_machine_as_test(
                    hypothesis.seed(self.derived_seed(layer))(machine_cls),
                    settings=settings(
                        max_examples=max_examples,
                        stateful_step_count=step_count,
                        database=None,
                        deadline=None,
                        derandomize=False,
                        report_multiple_bugs=False,
                        print_blob=False,
                        suppress_health_check=list(HealthCheck),
                        phases=[Phase.generate, Phase.shrink],
                    ),
                )
        except Violation:
            pass  # the machine registered the (shrunk) history through ctx before raising
        finally:
            self.layer = None

    # ---- coverage-guided driver (atheris / libFuzzer) ---------------------------------
    def run_fuzz(self, layer, runs, with_corpus=True, max_len=256):
        """Coverage-guided campaign in a fresh interpreter (atheris never returns from Fuzz()).  The check module
        provides FUZZ[layer] = (decode(bytes) -> case | None, oracle(case) -> Result, corpus() -> [bytes]); the oracle
        runs INSIDE the fuzz target.  A reported failure is re-evaluated here with the ordinary oracle before it counts;
        a libFuzzer timeout / crash that does not reproduce is a note, never a verdict.  If atheris cannot be imported
        the layer records `atheris: unavailable` and returns."""
        self.layer = layer
        out = tempfile.mkdtemp(prefix="vpfz_%s_" % self.mod.ID, dir="/dev/shm" if os.path.isdir("/dev/shm") else None)
        try:
            seed = self.derived_seed(layer) % (2**31 - 1) or 1
            p = _spawn(["--fuzz", self.mod.ID, layer, runs, seed, out, int(with_corpus), max_len, self.deadline], stderr=subprocess.DEVNULL, stdout=subprocess.DEVNULL)
            try:
                rc = p.wait(timeout=max(30, self.deadline + 120 - time.time()))
            except subprocess.TimeoutExpired:
                p.kill()
                rc = -9
            sp = os.path.join(out, "stats.json")
            if os.path.exists(sp):
                d = json.load(open(sp))
                st = self.stats
                st.evaluations += d["evaluations"]
                lay = st.layers.setdefault(layer, {"evaluations": 0, "nontrivial": 0})
                lay["evaluations"] += d["evaluations"]
                lay["nontrivial"] += d["nontrivial"]
                lay["engine"] = "atheris %s, corpus=%s, -runs=%s -seed=%s, coverage-guided (reproducible unit = saved input)" % (d.get("atheris"), "seeded" if with_corpus else "empty", runs, seed)
                for h in d["hashes"]:
                    if len(st.hashes) < MAX_HASHES:
                        st.hashes.add(h)
                st.labels.update(d["labels"])
                st.known.update(d["known"])
                st.exc.update(d["exc"])
                for smp in d["samples"]:
                    if len(st.samples) < MAX_SAMPLES:
                        st.samples.append(smp)
                if d.get("unavailable"):
                    st.notes.append("atheris: unavailable (%s) - layer %s skipped" % (d["unavailable"], layer))
            else:
                self.stats.notes.append("fuzz layer %s produced no statistics (rc=%s)" % (layer, rc))
            fp = os.path.join(out, "fail.json")
            if os.path.exists(fp):
                case = json.load(open(fp))["case"]
                decode, oracle, _corpus = self.mod.FUZZ[layer]
                fails = self.evaluate(oracle, case)
                if fails:
                    mini = getattr(self.mod, "minimise", None)
                    if mini:
                        try:
                            case = mini(case)
                            fails = self.evaluate(oracle, case, count=False) or fails
                        except Exception:  # noqa: minimiser trouble must not lose the finding
                            pass
                    self.violation(case, fails)
                else:
                    self.stats.notes.append("fuzz layer %s: a failure inside the target did not reproduce outside it (not a verdict)" % layer)
            elif rc not in (0,):
                self.stats.notes.append("fuzz layer %s ended with rc=%s without an oracle failure (libFuzzer timeout/oom/crash: inconclusive)" % (layer, rc))
        finally:
            import shutil

            shutil.rmtree(out, ignore_errors=True)
            self.layer = None

    def mark_exhaustive(self, layer, what):
        self.stats.layers.setdefault(layer, {"evaluations": 0, "nontrivial": 0})["exhaustive"] = what


@contextlib.contextmanager
def _no_hypothesis_noise():
    # Hypothesis prints the falsifying example to stdout through its reporter; keep stdout for our protocol lines.
    from hypothesis import reporting

    with reporting.with_reporter(lambda *_a, **_k: None):
        yield


def _shorten(case, limit=1500):
    s = canon(case)
    if len(s) <= limit:
        return case
    return {"truncated_json": s[:limit] + "..."}


# ======================================================================================
# worker entry
# ======================================================================================

def worker_main(argv):
    import warnings

    warnings.filterwarnings("ignore", category=SyntaxWarning)  # ast.parse of generated type strings such as "5limit"
    setup_paths()
    pid, tier, seed, shard, nshards, deadline, out = argv[:7]
    mod = importlib.import_module("checks." + pid)
    ctx = Ctx(mod, tier, int(seed), int(shard), int(nshards), float(deadline))
    t0 = time.time()
    if hasattr(mod, "init_worker"):
        mod.init_worker(ctx)
    for name, fn in mod.LAYERS:
        if ctx.stats.violations and not getattr(mod, "ALL_LAYERS_AFTER_VIOLATION", False):
            ctx.stats.notes.append("layer %s skipped in shard %d: an earlier layer already found a violation" % (name, ctx.shard))
            continue
        ctx.layer = name
        fn(ctx)
        ctx.layer = None
    d = ctx.stats.dump()
    d["wall_s"] = time.time() - t0
    with open(out, "w") as f:
        json.dump(d, f, default=repr)
    return 0


def fuzz_main(argv):
    """Fresh-interpreter atheris campaign with the oracle inside the target (see Ctx.run_fuzz)."""
    setup_paths()
    pid, layer, runs, seed, out, with_corpus, max_len, deadline = argv[:8]
    runs, seed, with_corpus, max_len, deadline = int(runs), int(seed), int(with_corpus), int(max_len), float(deadline)
    st = {"evaluations": 0, "nontrivial": 0, "hashes": [], "labels": collections.Counter(), "known": collections.Counter(),
          "exc": collections.Counter(), "samples": [], "atheris": None}
    hashes = set()

    def dump():
        st["hashes"] = sorted(hashes)
        tmp = os.path.join(out, "stats.json.tmp")
        with open(tmp, "w") as f:
            json.dump(st, f, default=repr)
        os.replace(tmp, os.path.join(out, "stats.json"))

    try:
        import atheris
    except Exception as e:  # noqa
        st["unavailable"] = repr(e)[:200]
        dump()
        return 0
    try:
        from importlib.metadata import version as _v

        st["atheris"] = _v("atheris")
    except Exception:  # noqa
        st["atheris"] = "?"
    import warnings

    warnings.filterwarnings("ignore")
    with atheris.instrument_imports(include=["cdd"], enable_loader_override=False):
        mod = importlib.import_module("checks." + pid)
        if hasattr(mod, "init_worker"):
            mod.init_worker(None)
    decode, oracle, corpus = mod.FUZZ[layer]
    cdir = os.path.join(out, "corpus")
    os.makedirs(cdir)
    if with_corpus:
        for i, b in enumerate(corpus()):
            with open(os.path.join(cdir, "seed%04d" % i), "wb") as f:
                f.write(b[:max_len])

    def one(data):
        if time.time() > deadline:
            dump()
            os._exit(0)
        case = decode(data)
        if case is None:
            return
        res = oracle(case)
        st["evaluations"] += 1
        st["labels"].update(res.labels)
        st["known"].update(res.known)
        st["exc"].update(res.exc)
        if res.nontrivial:
            st["nontrivial"] += 1
            if len(hashes) < 50000:
                hashes.add(case_hash(case))
            if len(st["samples"]) < 3 and st["evaluations"] % 97 == 1:
                st["samples"].append({"layer": layer, "case": _shorten(case)})
        if res.failures:
            with open(os.path.join(out, "fail.json"), "w") as f:
                json.dump({"case": case, "failures": res.failures}, f, default=repr)
            dump()
            os._exit(1)
        if st["evaluations"] % 500 == 0:
            dump()

    dump()
    atheris.Setup([sys.argv[0], cdir, "-runs=%d" % runs, "-seed=%d" % seed, "-max_len=%d" % max_len, "-timeout=120", "-rss_limit_mb=4096", "-print_final_stats=0", "-verbosity=0"], one)
    try:
        atheris.Fuzz()
    finally:
        dump()
    return 0


def witness_main(argv):
    """Replays witnesses in a fresh interpreter; prints one JSON line per witness."""
    setup_paths()
    pid, out = argv[:2]
    mod = importlib.import_module("checks." + pid)
    if hasattr(mod, "init_worker"):
        mod.init_worker(None)
    res = []
    for e in FINDINGS.for_property(pid):
        # an open finding's witness is replayed with every relaxation off (it must still fail);
        # a fixed finding's witness is an ordinary regression case: other open findings keep their relaxations
        set_strict(e["status"] == "open")
        for w in e.get("witnesses", {}).get(pid, []):
            try:
                with watchdog(60):
                    r = mod.replay(w)
                fails = r.failures
            except CaseTimeout:
                fails = [("timeout", "witness did not finish in 60 s")]
            res.append({"id": e["id"], "status": e["status"], "witness": w, "failures": fails})
    with open(out, "w") as f:
        json.dump(res, f, default=repr)
    return 0


# ======================================================================================
# parent
# ======================================================================================

def _spawn(args, hashseed="0", extra_env=None, **popen_kw):
    env = dict(os.environ)
    env.update(PYTHONHASHSEED=str(hashseed), PYTHONDONTWRITEBYTECODE="1", VERIF_REPO=REPO)
    env.pop("PYTHONPATH", None)
    if extra_env:
        env.update(extra_env)
    return subprocess.Popen([sys.executable, "-X", "faulthandler", os.path.join(ROOT, "check")] + [str(a) for a in args], env=env, cwd=ROOT, **popen_kw)


def write_replay(pid, v):
    d = os.path.join(OUT, "replays", pid)
    os.makedirs(d, exist_ok=True)
    path = os.path.join(d, "%s.json" % case_hash(v["case"]))
    with open(path, "w") as f:
        json.dump({"property": pid, "layer": v.get("layer"), "case": v["case"], "failures": (v.get("failures") or [])[:12]}, f, indent=1, default=repr)
    return path


def parent_main(pid, tier, replay=None):
    setup_paths()
    t0 = time.time()
    seed = int(os.environ.get("VERIF_SEED", "1") or 1)
    mod = importlib.import_module("checks." + pid)
    if replay:
        return replay_main(mod, replay)
    cfg = mod.TIERS[tier]
    nshards = cfg.get("shards", 1)
    budget = cfg.get("budget_s", 240 if tier == "quick" else 3000)
    deadline = t0 + budget
    tmp = tempfile.mkdtemp(prefix="vp_%s_" % pid, dir="/dev/shm" if os.path.isdir("/dev/shm") else None)
    violations, known_lines = [], []
    try:
        # 1. witnesses of listed findings
        wout = os.path.join(tmp, "wit.json")
        p = _spawn(["--witness", pid, wout])
        if p.wait() != 0 or not os.path.exists(wout):
            print("HARNESS-ERROR: witness replay failed for %s" % pid)
            return 2
        for w in json.load(open(wout)):
            if w["status"] == "open":
                if w["failures"]:
                    e = next(x for x in FINDINGS.entries if x["id"] == w["id"])
                    line = "KNOWN-FINDING: property=%s %s: %s" % (pid, w["id"], e["what_fails"])
                    if line not in known_lines:
                        known_lines.append(line)
                else:
                    # not a verdict: a listed open finding whose witness passes is stale bookkeeping (stderr only)
                    sys.stderr.write("NOTE: witness of open finding %s (%s) no longer fails - entry is stale\n" % (w["id"], pid))
            elif w["status"] == "fixed" and w["failures"]:
                violations.append({"layer": "regression:" + w["id"], "case": w["witness"], "failures": w["failures"]})
        for line in known_lines:
            print(line)
        # 2. shards
        procs = []
        for i in range(nshards):
            out = os.path.join(tmp, "shard%d.json" % i)
            procs.append((i, out, _spawn(["--worker", pid, tier, seed, i, nshards, deadline, out])))
        merged = Stats()
        walls = []
        hard = deadline + cfg.get("grace_s", 240)
        for i, out, p in procs:
            try:
                rc = p.wait(timeout=max(5, hard - time.time()))
            except subprocess.TimeoutExpired:
                p.kill()
                rc = -9
            if rc != 0 or not os.path.exists(out):
                print("HARNESS-ERROR: shard %d of %s exited with %s" % (i, pid, rc))
                return 2
            d = json.load(open(out))
            merged.evaluations += d["evaluations"]
            merged.hashes.update(d["hashes"])
            merged.labels.update(d["labels"])
            merged.known.update(d["known"])
            merged.exc.update(d["exc"])
            merged.timeouts += d["timeouts"]
            merged.skipped_deadline += d["skipped_deadline"]
            merged.notes.extend(d.get("notes", []))
            for s in d["samples"]:
                if len(merged.samples) < MAX_SAMPLES:
                    merged.samples.append(s)
            for k, v in d["layers"].items():
                m = merged.layers.setdefault(k, {"evaluations": 0, "nontrivial": 0})
                m["evaluations"] += v["evaluations"]
                m["nontrivial"] += v["nontrivial"]
                if "exhaustive" in v:
                    m["exhaustive"] = v["exhaustive"]
            violations.extend(d["violations"])
            walls.append(d["wall_s"])
        # 3. verdict + evidence
        seen, paths = set(), []
        for v in violations:
            h = case_hash(v["case"])
            if h in seen:
                continue
            seen.add(h)
            paths.append(write_replay(pid, v))
        wall = time.time() - t0
        exhaustive_layers = {k: v["exhaustive"] for k, v in merged.layers.items() if "exhaustive" in v}
        ev = {
            "property_id": pid,
            "tier": tier,
            "seed": seed,
            "level": "exploration",
            "coverage": {
                "evaluations": merged.evaluations,
                "distinct_nontrivial": len(merged.hashes),
                "rule": mod.RULE,
                "samples": merged.samples,
                "labels": dict(sorted(merged.labels.items())),
                "layers": merged.layers,
                "excluded_known": dict(merged.known),
                "exceptions_bucketed": dict(merged.exc),
                "timeouts_inconclusive": merged.timeouts,
                "cases_skipped_at_deadline": merged.skipped_deadline,
                "shards": nshards,
                "exhaustive": bool(exhaustive_layers) and cfg.get("claims_exhaustive", False),
                "exhaustive_layers": exhaustive_layers,
                "known_findings_reproduced": known_lines,
                "notes": merged.notes[:20],
            },
            "assumptions": getattr(mod, "ASSUMPTIONS", []),
            "wall_s": round(wall, 2),
            "violations": len(paths),
        }
        os.makedirs(os.path.join(OUT, "evidence"), exist_ok=True)
        with open(os.path.join(OUT, "evidence", pid + ".json"), "w") as f:
            json.dump(ev, f, indent=1, default=repr)
        for path in paths:
            print("VIOLATION property=%s replay=%s" % (pid, os.path.relpath(path, OUT)))
        if paths:
            return 1
        floor = getattr(mod, "FLOOR", {}).get(tier, 2)
        if len(merged.hashes) < floor and merged.skipped_deadline == 0:
            print("HARNESS-ERROR: %s explored only %d distinct non-trivial cases (floor %d): generator regression" % (pid, len(merged.hashes), floor))
            return 2
        need = getattr(mod, "REQUIRED_LABELS", {}).get(tier, [])
        missing = [l for l in need if not merged.labels.get(l)]
        if missing and merged.skipped_deadline == 0:
            print("HARNESS-ERROR: %s never produced the classes %s" % (pid, missing))
            return 2
        print("OK property=%s tier=%s evaluations=%d distinct_nontrivial=%d known=%s wall=%.1fs" % (pid, tier, merged.evaluations, len(merged.hashes), dict(merged.known), wall))
        return 0
    finally:
        import shutil

        shutil.rmtree(tmp, ignore_errors=True)


def replay_main(mod, path):
    if hasattr(mod, "init_worker"):
        mod.init_worker(None)
    doc = json.load(open(path))
    case = doc["case"] if "case" in doc else doc
    if doc.get("strict"):
        set_strict(True)
    try:
        with watchdog(120):
            res = mod.replay(case)
        fails = res.failures
    except CaseTimeout:
        fails = [("timeout", "did not finish in 120 s")]
    for c, d in fails:
        print("  clause %s: %s" % (c, d))
    if fails:
        print("VIOLATION property=%s replay=%s" % (mod.ID, path))
        return 1
    print("OK replay holds property=%s" % mod.ID)
    return 0


def collect_main(argv):
    """Calibration mode (not a registered command): run the oracle of a run_given layer over N
    generated cases with findings switched off or on, never raise, print the bucket table."""
    setup_paths()
    pid, n = argv[0], int(argv[1])
    strict = "--strict" in argv
    verbose = "-v" in argv
    tier = "quick"
    mod = importlib.import_module("checks." + pid)
    ctx = Ctx(mod, tier, int(os.environ.get("VERIF_SEED", "1")), 0, 1, time.time() + 36000)
    if hasattr(mod, "init_worker"):
        mod.init_worker(ctx)
    set_strict(strict)
    import hypothesis
    from hypothesis import HealthCheck, Phase, given, settings

    buckets, examples, known, labels = collections.Counter(), {}, collections.Counter(), collections.Counter()
    nt = [0, 0]
    strat, oracle = mod.COLLECT(ctx) if hasattr(mod, "COLLECT") else (mod.strategy(ctx), mod.oracle)

    @hypothesis.seed(ctx.derived_seed("collect"))
    @settings(max_examples=n, database=None, deadline=None, suppress_health_check=list(HealthCheck), phases=[Phase.generate])
    @given(strat)
    def t(case):
        try:
            with watchdog():
                r = oracle(case)
        except CaseTimeout:
            buckets["TIMEOUT"] += 1
            examples.setdefault("TIMEOUT", (case, ""))
            return
        nt[0] += 1
        nt[1] += bool(r.nontrivial)
        for k in r.known:
            known[k] += 1
        for l in r.labels:
            labels[l] += 1
        for c, d in r.failures:
            buckets[c] += 1
            if c not in examples or len(canon(case)) < len(canon(examples[c][0])):
                examples[c] = (case, d)

    t()
    print("cases", nt[0], "nontrivial", nt[1], "known", dict(known))
    for k, c in sorted(buckets.items(), key=lambda kv: -kv[1]):
        print("%6d  %s" % (c, k))
        if verbose:
            print("        e.g.", canon(examples[k][0])[:700])
            print("        ->", examples[k][1][:500])
    if "--labels" in argv:
        for k, c in sorted(labels.items()):
            print("   label %-30s %d" % (k, c))
    return 0


def main(a):
    try:
        if a and a[0] == "--worker":
            return worker_main(a[1:])
        if a and a[0] == "--witness":
            return witness_main(a[1:])
        if a and a[0] == "--fuzz":
            return fuzz_main(a[1:])
        if a and a[0] == "--collect":
            return collect_main(a[1:])
        rp = None
        if "--replay" in a:
            i = a.index("--replay")
            rp = a[i + 1]
            del a[i : i + 2]
        return parent_main(a[0], a[1] if len(a) > 1 else os.environ.get("VERIF_TIER", "quick"), replay=rp)
    except SystemExit:
        raise
    except BaseException:
        traceback.print_exc()
        return 2
