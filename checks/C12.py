"""C12 - sync makes every target equivalent to the truth, then is a no-op (DESIGN 4/C12)."""
import ast
import os
import shutil
import tempfile

from hypothesis import strategies as st

from vlib import core, gen_ir, hops
from vlib.core import Result, is_open
from vlib.norm import default_view, normdoc

ID = "C12"
RULE = (
    "a case is three generated interfaces (mutually different, or equal) realised as a class file, a function file "
    "(top-level function or Class.method) and an argparse file, each embedded among unrelated definitions, comments "
    "and imports; each non-truth target independently present / missing / empty; truth in {class, function, "
    "argparse_function}; 1..3 consecutive runs of `cdd.__main__.main(['sync', ...])`. Non-trivial = >=1 target "
    "initially different from the truth and >=1 run beyond the first. Distinct = SHA-1 of the case."
)
TIERS = {"quick": {"shards": 8, "n": 120, "budget_s": 230}, "thorough": {"shards": 16, "n": 900, "budget_s": 2700}}
FLOOR = {"quick": 40, "thorough": 2000}
REQUIRED_LABELS = {"quick": ["undocumented+related", "truth:class", "truth:function", "truth:argparse_function", "state:missing", "state:empty", "fn-shape:method", "runs=3"], "thorough": []}
ASSUMPTIONS = [
    "the function target is emitted with emit_as_kwonlyargs=False and ReST docstrings (the defaults sync itself uses)",
    "P9 cannot be repaired with the suite unedited: for function / argparse targets only the clauses 'target now has the truth's interface' and 'missing file is created' are relaxed, Class.method targets additionally relax idempotence",
]
KINDS = ["class", "function", "argparse_function"]
TNAME = {"class": "ConfigClass", "function": "method_name", "argparse_function": "set_cli_args"}


def init_worker(ctx):
    global cdd, to_code
    m = hops.load()
    cdd, to_code = m["cdd"], m["to_code"]


def render(kind, case_ir, method):
    ir = gen_ir.to_ir(case_ir)
    with core.quiet():
        if kind == "class":
            return "X = 1  # keep\n\n" + to_code(cdd.class_.emit.class_(ir, class_name="ConfigClass")) + "\n\ndef unrelated_c():\n    return 3\n"
        if kind == "function":
            if method:
                body = to_code(cdd.function.emit.function(ir, function_name="method_name", function_type="self", emit_as_kwonlyargs=False, indent_level=2))
                body = "\n".join(("    " + l) if l else l for l in body.splitlines())
                return "def before():\n    pass\n\n\nclass C(object):\n    z = 1\n\n" + body + "\n\n\ndef unrelated_f(a=2):\n    return a\n"
            return "def before():\n    pass\n\n" + to_code(cdd.function.emit.function(ir, function_name="method_name", function_type="static", emit_as_kwonlyargs=False)) + "\n\ndef unrelated_f(a=2):\n    return a\n"
        return "import json\n\n" + to_code(cdd.argparse_function.emit.argparse_function(ir, function_name="set_cli_args")) + "\n\ndef unrelated_a():\n    return json\n"


def find_target(mod, kind, method):
    if kind == "class":
        return next((n for n in mod.body if isinstance(n, ast.ClassDef) and n.name == "ConfigClass"), None)
    if kind == "function" and method:
        c = next((n for n in mod.body if isinstance(n, ast.ClassDef) and n.name == "C"), None)
        return None if c is None else next((n for n in c.body if isinstance(n, ast.FunctionDef) and n.name == "method_name"), None)
    return next((n for n in mod.body if isinstance(n, ast.FunctionDef) and n.name == TNAME[kind]), None)


def parse_target(node, kind):
    with core.quiet():
        if kind == "class":
            return cdd.class_.parse.class_(node)
        if kind == "function":
            return cdd.function.parse.function(node)
        return cdd.argparse_function.parse.argparse_ast(node)


def others(src, kind, method):
    """AST of the file with the named target removed"""
    m = ast.parse(src)
    if kind == "function" and method:
        for n in m.body:
            if isinstance(n, ast.ClassDef) and n.name == "C":
                n.body = [b for b in n.body if getattr(b, "name", None) != "method_name"] or [ast.Pass()]
    else:
        m.body = [n for n in m.body if getattr(n, "name", None) != TNAME[kind]]
    return ast.dump(m)


def view(ir, strict_types=True):
    return [(n, p.get("typ"), default_view(p)) for n, p in ir["params"].items()]


def docs(ir):
    """descriptions up to whitespace and a terminal full stop: cdd's own argparse emitter wraps long help strings with
    a line break inside the literal, so descriptions of argparse targets can only be compared modulo whitespace"""
    return [(n, normdoc(p.get("doc"))) for n, p in ir["params"].items()]


@st.composite
def case_strategy(draw):
    long_doc = draw(st.booleans())
    # half of the cases add List[..] / Union[..] / nested annotations (required parameters of a non-simple type)
    profile = draw(st.sampled_from(["common", "executable"]))
    with_returns = draw(st.integers(0, 3)) == 0
    irs = [draw(gen_ir.interface(profile, min_params=1, max_params=4, returns=with_returns, min_literal=2, doc=gen_ir.boundary_descr() if long_doc else gen_ir.descr)) for _ in range(3)]
    same = draw(st.integers(0, 3)) == 0
    if same:
        irs = [irs[0]] * 3
    truth = draw(st.sampled_from(KINDS))
    related = None
    if not same and draw(st.integers(0, 2)) == 0:
        # the usual life of a synced trio: the truth gained or lost its LAST parameter(s) since the previous sync, so
        # every other target holds a strict prefix / an extension of the truth's parameters
        import copy

        t = irs[KINDS.index(truth)]
        k = draw(st.integers(1, 2))
        related = draw(st.sampled_from(["targets-are-prefix", "targets-are-extension"]))
        for i, kind in enumerate(KINDS):
            if kind == truth:
                continue
            o = copy.deepcopy(t)
            if related == "targets-are-prefix" and len(o["params"]) > k:
                o["params"], o["kinds"] = o["params"][:-k], o["kinds"][:-k]
            else:
                related = "targets-are-extension"
                extra = draw(gen_ir.interface(profile, min_params=2, max_params=3, returns=False, min_literal=2))
                have = {n for n, _p in o["params"]}
                add = [(np_, kd) for np_, kd in zip(extra["params"], extra["kinds"]) if np_[0] not in have][:k]
                if any("default" in p for _n, p in o["params"]):
                    add = [(np_, kd) for np_, kd in add if "default" in np_[1]]  # keep the defaults a suffix
                o["params"] += [a for a, _k in add]
                o["kinds"] += [k_ for _a, k_ in add]
            irs[i] = o
    undocumented = draw(st.integers(0, 3)) == 0 or (related is not None and draw(st.booleans()))
    if undocumented:
        # nobody wrote descriptions: no header, no per-parameter text (the emitted class then has no docstring)
        import copy

        irs = [copy.deepcopy(x) for x in irs]
        for x in irs:
            x["doc"] = ""
            for _n, p in x["params"]:
                p["doc"] = ""
    states = {k: draw(st.sampled_from(["present", "present", "missing", "empty"])) for k in KINDS}
    states[truth] = "present"
    return {"long_doc": long_doc, "profile": profile, "related": related, "undocumented": undocumented, "irs": irs, "same": same, "truth": truth, "states": states, "method": draw(st.booleans()), "runs": draw(st.integers(1, 3)), "nww": draw(st.booleans())}


def strategy(ctx):
    return case_strategy()


def oracle(case):
    r = Result()
    truth, states, method = case["truth"], case["states"], case["method"]
    r.label("truth:" + truth, "runs=%d" % case["runs"], "fn-shape:" + ("method" if method else "toplevel"))
    for k in KINDS:
        if k != truth:
            r.label("state:" + states[k])
    if case["same"]:
        r.label("already-equal")
    if case.get("long_doc"):
        r.label("descriptions-across-wrap-column")
    r.label("profile:" + case.get("profile", "common"))
    if any(x.get("returns") for x in case["irs"]):
        r.label("has-return-entry")
    if case.get("related"):
        r.label(case["related"])
    if case.get("undocumented"):
        r.label("undocumented-interfaces")
    if case.get("related") and case.get("undocumented"):
        r.label("undocumented+related")
    d = tempfile.mkdtemp(prefix="c12_", dir="/dev/shm" if os.path.isdir("/dev/shm") else None)
    try:
        paths = {k: os.path.join(d, k[0] + ".py") for k in KINDS}
        srcs = {}
        for k, ir in zip(KINDS, case["irs"]):
            srcs[k] = render(k, ir, method)
            if states[k] == "present":
                open(paths[k], "w").write(srcs[k])
            elif states[k] == "empty":
                open(paths[k], "w").write("")
        argv = ["sync", "--class", paths["class"], "--class-name", "ConfigClass", "--function", paths["function"], "--function-name", "C.method_name" if method else "method_name", "--argparse-function", paths["argparse_function"], "--argparse-function-name", "set_cli_args", "--truth", truth]
        if case["nww"]:
            argv.append("--no-word-wrap")
        truth_before = parse_target(find_target(ast.parse(srcs[truth]), truth, method), truth)
        after1 = {}
        for run in range(1, case["runs"] + 1):
            try:
                with core.quiet():
                    cdd.__main__.main(list(argv))
            except BaseException as e:
                if isinstance(e, (core.CaseTimeout, KeyboardInterrupt)):
                    raise
                fn_missing = states["function"] in ("missing", "empty") or states["argparse_function"] in ("missing", "empty")
                if is_open("P9") and states["function"] == "empty" and truth != "function":
                    r.covered("P9")
                else:
                    r.fail("sync-raises", "run %d raises %s (truth=%s states=%s)" % (run, core.exc_bucket(e), truth, states))
                return r
            for k in KINDS:
                p9_target = k in ("function", "argparse_function") and k != truth and is_open("P9")
                if not os.path.isfile(paths[k]):
                    if p9_target:
                        r.covered("P9")
                    else:
                        r.fail("file-not-created", "%s (%s) after run %d" % (k, states[k], run))
                    continue
                cur = open(paths[k]).read()
                if run == 1:
                    after1[k] = cur
                    try:
                        m = ast.parse(cur)
                    except SyntaxError as e:
                        r.fail("not-python", "%s after run 1: %s" % (k, e))
                        continue
                    node = find_target(m, k, method)
                    if node is None:
                        if p9_target:
                            r.covered("P9")
                        else:
                            r.fail("target-missing", "%s (%s) has no target after run 1" % (k, states[k]))
                    else:
                        try:
                            got = parse_target(node, k)
                        except Exception as e:
                            r.fail("reparse-raises", "%s: %s" % (k, core.exc_bucket(e)))
                            got = None
                        if got is not None:
                            if k == truth:
                                if view(got) != view(truth_before) or docs(got) != docs(truth_before):
                                    r.fail("truth-changed", "the truth's own interface changed: %s -> %s" % (view(truth_before), view(got)))
                            elif not _conforms(got, truth_before, k, truth):
                                # P9 is about targets that EXIST and differ (they are left as they were); a missing /
                                # empty top-level function file is created from the truth and must conform (a created
                                # argparse file is bounded by what argparse can express, P13, and stays relaxed)
                                if p9_target and (states[k] == "present" or k == "argparse_function" or method):
                                    r.covered("P9")
                                elif p9_target and _conforms(got, truth_before, k, truth, sig_only=True):
                                    r.covered("P9")  # created function: names / order / types / defaults are strict, the prose stays relaxed
                                else:
                                    r.fail("not-conformed", "truth=%s target=%s(%s): %s vs truth %s" % (truth, k, states[k], view(got), view(truth_before)))
                    if states[k] == "present":
                        try:
                            if others(cur, k, method) != others(srcs[k], k, method):
                                if k == "function" and method and is_open("P9"):
                                    r.covered("P9")  # a new top-level def is appended for Class.method targets
                                else:
                                    r.fail("outside-changed", "%s: code outside the named target changed" % k)
                        except SyntaxError:
                            pass
                elif cur != after1.get(k):
                    if k == "function" and method and is_open("P9"):
                        r.covered("P9")
                    else:
                        r.fail("not-idempotent", "%s changed again on run %d" % (k, run))
    finally:
        shutil.rmtree(d, ignore_errors=True)
    r.nontrivial = (not case["same"]) and case["runs"] >= 2
    return r


def _conforms(got, truth_ir, kind, truth_kind, sig_only=False):
    """names, order, types, defaults (+type) and descriptions of the target equal the truth's, under the per-format
    normalisations of C02/C03 (function '=None'; argparse's zero-value classes are P13, kept out by comparing only
    parameters that have a default or are Optional when argparse is involved)"""
    a, b = view(got), view(truth_ir)
    if [x[0] for x in a] != [x[0] for x in b]:
        return False
    for (n, t1, d1), (_n, t2, d2) in zip(a, b):
        lossy = "argparse_function" in (kind, truth_kind) or "function" in (kind, truth_kind)
        if lossy and d2 == ("str", "<absent>"):
            continue  # parameter without default: '=None' / zero-value normalisations (C02, P13, P14) apply
        if lossy and d1 != d2 and d1 == ("str", gen_ir.NoneStr) and kind != "function":
            continue  # (a function target keeps every real default of the truth: only an ABSENT default becomes None)
        if t1 == "Optional[%s]" % t2 and d2 == ("str", gen_ir.NoneStr) and truth_kind == "function" and is_open("P14"):
            continue  # P14: the '=None' of a function parameter widens the type on the way into a class / argparse
        if t1 != t2 or d1 != d2:
            return False
    if sig_only:
        return True
    if docs(got) != docs(truth_ir):
        return False
    # the return entry (type; description up to whitespace) travels with the interface
    tr, gr = ((truth_ir.get("returns") or {}).get("return_type") or {}), ((got.get("returns") or {}).get("return_type") or {})
    if tr.get("typ") and kind == "class" and (gr.get("typ") != tr.get("typ") or normdoc(gr.get("doc")) != normdoc(tr.get("doc"))):
        return False
    return True


def layer_main(ctx):
    ctx.run_given("sync", strategy(ctx), oracle, ctx.cfg["n"])


LAYERS = [("sync", layer_main)]


def replay(case):
    return oracle(case)
