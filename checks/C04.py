"""C04 - emitted code runs and exposes exactly the described interface (DESIGN 4/C04).
Reference implementation = CPython itself: compile/exec, inspect.signature, argparse."""
import argparse
import ast
import inspect
import json

from hypothesis import strategies as st

from vlib import core, gen_ir, hops
from vlib.core import Result, is_open
from vlib.gen_ir import NoneStr
from vlib.norm import is_optional, literal_members, normdoc

ID = "C04"
RULE = (
    "a case is one generated interface of the executable domain (types resolvable from typing+builtins, literal "
    "defaults) emitted as class, pydantic-shaped class, function (annotations on/off, kw-only on/off) and argparse "
    "function in three docstring styles; each emitted source is compiled, exec'd and interrogated with "
    "__annotations__/inspect.signature/ArgumentParser. Non-trivial = >=1 Literal or Optional and >=1 default."
)
TIERS = {"quick": {"shards": 8, "n": 900, "budget_s": 200}, "thorough": {"shards": 16, "n": 12000, "budget_s": 2700}}
FLOOR = {"quick": 200, "thorough": 10000}
REQUIRED_LABELS = {"quick": ["kwargs-param:not-last", "kind:literal", "kind:optint", "d:bool", "d:neg-int", "class-with-__call__", "__call__-executed", "descr:long-token"], "thorough": []}
ASSUMPTIONS = [
    "exec'ing emitted code is safe because the interface contains only literals and names of our own vocabulary",
    "pydantic's BaseModel is stubbed by `object` (pydantic itself is not a dependency of the repository)",
]
EMITTERS = [
    ("class", {}),
    ("pydantic", {}),
    ("function", {"type_annotations": True, "emit_as_kwonlyargs": False}),
    ("function", {"type_annotations": True, "emit_as_kwonlyargs": True}),
    ("function", {"type_annotations": False, "emit_as_kwonlyargs": False}),
    ("argparse", {}),
    # function -> class: the function's body becomes `__call__`, parameter names rewritten to attributes
    ("class", {"emit_call": True}),
]
CELLS = [(i, s) for i in range(len(EMITTERS)) for s in ("rest", "google", "numpydoc")]


def init_worker(ctx):
    hops.load()


@st.composite
def with_kwargs_param(draw, base):
    """a parameter whose name ends in `kwargs` (emitted as **<name> by the function emitter) at ANY position"""
    case = draw(base)
    if draw(st.integers(0, 2)) == 0:
        nm = draw(st.sampled_from(["kwargs", "loader_kwargs", "extra_kwargs"]))
        if nm not in [n for n, _p in case["params"]]:
            i = draw(st.integers(0, len(case["params"])))
            case["params"].insert(i, [nm, {"typ": "Optional[dict]", "doc": "extra keyword arguments"}])
            case["kinds"].insert(i, "kwargs")
    return case


def strategy(ctx):
    return with_kwargs_param(_strategy())


def _strategy():
    return st.one_of(
        gen_ir.interface("executable", min_params=1, max_params=6, returns=False),
        gen_ir.interface("executable", min_params=1, max_params=6, returns=False, doc=gen_ir.mixed_descr, name_strategy=gen_ir.rich_names),
        gen_ir.interface("executable", min_params=1, max_params=3, returns=False, doc=st.one_of(gen_ir.descr, gen_ir.long_token_descr())),
    )


def namespace():
    d = {"loads": json.loads, "BaseModel": object}
    exec("from typing import *", d)
    return d


def pyval(p):
    d = p.get("default", None)
    return None if d == NoneStr else d


def tv(v):
    return (type(v).__name__, v)


def check_cell(r, case, cell):
    ei, style = cell
    fmt, kw = EMITTERS[ei]
    tag = "[%s%s,%s]" % (fmt, "".join("," + k[:4] + "=" + str(v)[:1] for k, v in kw.items()), style)
    ps = case["params"]
    ir = gen_ir.to_ir(case)
    if kw.get("emit_call"):
        names = [n for n, _p in ps if not n.endswith("kwargs")]
        body = "vp_result = (%s)\nreturn vp_result" % "".join(n + ", " for n in names)
        ir["_internal"] = {"body": ast.parse("def _f():\n" + "\n".join("    " + l for l in body.splitlines())).body[0].body, "from_name": "foo", "from_type": "static"}
        r.label("class-with-__call__")
    try:
        with core.quiet():
            src, node = hops.emit_src(fmt, ir, docstring_format=style, **kw)
    except Exception as e:
        r.fail("emit-raises", "%s %s" % (tag, core.exc_bucket(e)))
        return
    try:
        code = compile(src, "<emitted>", "exec")
    except SyntaxError as e:
        r.fail("compile", "%s %s: %r" % (tag, e, src[:300]))
        return
    # unparse / re-parse identity
    try:
        a = ast.dump(ast.parse(src))
        m = ast.Module(body=[node], type_ignores=[])
        ast.fix_missing_locations(m)
        b = ast.dump(ast.parse(hops.load()["to_code"](m)))
        if a != b:
            r.fail("unparse-identity", "%s re-parsing the text gives another AST" % tag)
        if ast.dump(ast.parse(ast.unparse(ast.parse(src)))) != a:
            r.fail("unparse-identity", "%s unparse(parse(text)) is not stable" % tag)
    except Exception as e:
        r.fail("unparse-identity", "%s %r" % (tag, e))
    g = namespace()
    try:
        exec(code, g)
    except Exception as e:
        r.fail("exec", "%s %r in %r" % (tag, e, src[:300]))
        return
    if fmt in ("class", "pydantic"):
        C = g.get("Foo")
        if C is None:
            r.fail("symbol", "%s class Foo not defined" % tag)
            return
        ann = C.__dict__.get("__annotations__", {})
        if list(ann) != [n for n, _p in ps]:
            r.fail("class-names", "%s %s vs %s" % (tag, list(ann), [n for n, _p in ps]))
            return
        for n, p in ps:
            if ann[n] != eval(p["typ"], g):
                r.fail("class-annotation", "%s %s: %r vs %r" % (tag, n, ann[n], p["typ"]))
            has = n in C.__dict__
            if "default" in p:
                if not has or tv(C.__dict__[n]) != tv(pyval(p)):
                    r.fail("class-default", "%s %s: described %r, attribute %r" % (tag, n, tv(pyval(p)), tv(C.__dict__.get(n, "<none>"))))
            elif has:
                r.fail("class-default-invented", "%s %s has attribute %r" % (tag, n, C.__dict__[n]))
        if kw.get("emit_call"):
            call = C.__dict__.get("__call__")
            if call is None:
                r.fail("call-method", "%s emit_call=True but the class has no __call__" % tag)
            elif all("default" in p for n, p in ps if not n.endswith("kwargs")) and not any(n.endswith("kwargs") for n, _p in ps):
                # every attribute has a value: the rewritten body must read exactly those attributes
                try:
                    got = C().__call__()
                    want = tuple(tv(pyval(p)) for _n, p in ps)
                    if tuple(map(tv, got)) != want:
                        r.fail("call-method", "%s __call__ returns %r, attributes are %r" % (tag, got, want))
                    r.label("__call__-executed")
                except Exception as e:
                    r.fail("call-method", "%s __call__ raises %r in %r" % (tag, e, src[-300:]))
    elif fmt == "function":
        f = g.get("foo")
        if f is None:
            r.fail("symbol", "%s function foo not defined" % tag)
            return
        sig = inspect.signature(f)
        # a `...kwargs` entry is the function's **kwargs: Python puts it last; every other name keeps its described order
        kw_names = [n for n, _p in ps if n.endswith("kwargs")]
        want_order = [n for n, _p in ps if not n.endswith("kwargs")] + kw_names
        if list(sig.parameters) != want_order:
            r.fail("sig-names", "%s signature %s, described %s" % (tag, list(sig.parameters), want_order))
            return
        for n, p in ps:
            sp = sig.parameters[n]
            if n in kw_names:
                if sp.kind != sp.VAR_KEYWORD:
                    r.fail("sig-kind", "%s %s should be **%s, is %s" % (tag, n, n, sp.kind))
                continue
            if (sp.kind == sp.KEYWORD_ONLY) != bool(kw.get("emit_as_kwonlyargs")):
                r.fail("sig-kind", "%s %s is %s" % (tag, n, sp.kind))
            # documented normalisation: a parameter without default is shown as '=None'
            if tv(sp.default) != tv(pyval(p)):
                r.fail("sig-default", "%s %s: described %r, signature %r" % (tag, n, tv(pyval(p)), tv(sp.default)))
            if kw.get("type_annotations"):
                if sp.annotation != eval(p["typ"], g):
                    r.fail("sig-annotation", "%s %s: %r vs %r" % (tag, n, sp.annotation, p["typ"]))
            elif sp.annotation is not sp.empty:
                r.fail("sig-annotation-unexpected", "%s %s: %r" % (tag, n, sp.annotation))
    else:
        f = g.get("set_cli_args")
        if f is None:
            r.fail("symbol", "%s set_cli_args not defined" % tag)
            return
        parser = argparse.ArgumentParser(prog="x")
        try:
            f(parser)
        except Exception as e:
            r.fail("argparse-populate", "%s %r in %r" % (tag, e, src[:400]))
            return
        acts = [a for a in parser._actions if a.dest != "help"]
        if [a.dest for a in acts] != [n for n, _p in ps]:
            r.fail("arg-names", "%s %s" % (tag, [a.dest for a in acts]))
            return
        if normdoc(parser.description) != normdoc(case["doc"]):
            r.fail("arg-description", "%s %r vs %r" % (tag, parser.description, case["doc"]))
        argv = []
        for a, (n, p) in zip(acts, ps):
            typ = p["typ"]
            opt = is_optional(typ)
            inner = typ[9:-1] if opt else typ
            if a.option_strings != ["--" + n]:
                r.fail("arg-option", "%s %s: %r" % (tag, n, a.option_strings))
            if normdoc(a.help) != normdoc(p["doc"]):
                r.fail("arg-help", "%s %s: %r vs %r" % (tag, n, a.help, p["doc"]))
            if tv(a.default) != tv(pyval(p)):
                r.fail("arg-default", "%s %s: described %r, action %r" % (tag, n, tv(pyval(p)), tv(a.default)))
            # cdd's documented sense of `required`: non-Optional and no default to fall back on
            want_req = (not opt) and "default" not in p
            if a.required != want_req:
                if a.required == (not opt):
                    pass  # both readings in DESIGN: non-Optional => required
                elif inner == "bool" and "default" not in p and not opt and is_open("P13"):
                    r.covered("P13")  # bare bool without default is emitted as an optional flag
                else:
                    r.fail("arg-required", "%s %s (%s, default %s): required=%s" % (tag, n, typ, "default" in p, a.required))
            ms = literal_members(inner)
            sample = None
            if ms is not None:
                if tuple(a.choices or ()) != tuple(ms):
                    if len(ms) == 1 and is_open("P13"):
                        r.covered("P13")
                    else:
                        r.fail("arg-choices", "%s %s: choices %r vs members %r" % (tag, n, a.choices, ms))
                sample = ms[0]
            elif inner in ("int", "float", "str", "bool"):
                conv = a.type or str
                want = {"int": int, "float": float, "str": str, "bool": bool}[inner]
                sample = {"int": "7", "float": "1.5", "str": "zz", "bool": "True"}[inner]
                try:
                    if type(conv(sample)) is not want:
                        if inner == "bool" and is_open("P13"):
                            r.covered("P13")
                        else:
                            r.fail("arg-type", "%s %s (%s): type=%r converts %r to %r" % (tag, n, inner, a.type, sample, conv(sample)))
                except Exception as e:
                    r.fail("arg-type", "%s %s: conversion raised %r" % (tag, n, e))
            elif inner.startswith("List[") and inner[5:-1] in ("int", "str", "float"):
                elem = {"int": int, "str": str, "float": float}[inner[5:-1]]
                conv = a.type or str
                sample = {"int": "7", "str": "zz", "float": "1.5"}[inner[5:-1]]
                if type(conv(sample)) is not elem or not isinstance(a, argparse._AppendAction):
                    r.fail("arg-type", "%s %s (%s): type=%r action=%s" % (tag, n, inner, a.type, type(a).__name__))
            if a.required:
                if sample is None:
                    sample = "1"
                argv += ["--" + n, str(sample)]
        try:
            with core.quiet():
                nsr = parser.parse_args(argv)
        except SystemExit:
            r.fail("arg-parse", "%s parse_args(%r) exits" % (tag, argv))
            return
        for a, (n, p) in zip(acts, ps):
            if not a.required and tv(getattr(nsr, n)) != tv(pyval(p)):
                r.fail("arg-omitted-default", "%s %s: parse_args gives %r, described %r" % (tag, n, tv(getattr(nsr, n)), tv(pyval(p))))


def oracle(case):
    r = Result()
    for cell in case.get("cells") or CELLS:
        check_cell(r, case, tuple(cell))
    r.label(*gen_ir.labels_of(case))
    if "kwargs" in case["kinds"]:
        r.label("kwargs-param", "kwargs-param:" + ("last" if case["kinds"][-1] == "kwargs" else "not-last"))
    ps = [p for _n, p in case["params"]]
    r.nontrivial = any("default" in p for p in ps) and any(is_optional(p["typ"]) or "Literal" in p["typ"] for p in ps)
    return r


def layer_main(ctx):
    ctx.run_given("exec", strategy(ctx), oracle, ctx.cfg["n"])


LAYERS = [("exec", layer_main)]


def replay(case):
    return oracle(case)
