"""C14 - every parser returns a well-formed interface description (DESIGN 4/C14)."""
import ast
import json

from hypothesis import strategies as st

from vlib import core, gen_doc, gen_ir, gen_prog, hops
from vlib.core import Result, is_open

ID = "C14"
RULE = (
    "cases are parser inputs: (a) grammar-generated docstrings in three styles (sections, footers incl. "
    "Usage/Notes/Raises, multi-line descriptions, *args/**kwargs entries, indent 0..8) -> docstring parser; (b) "
    "functions / classes / argparse functions / SQLAlchemy models x3 / JSON-schemas emitted from generated interfaces "
    "-> the matching parser; (c) hand-shaped defs from the module generator (positional, defaulted, annotated, "
    "*args, **kwargs, keyword-only, decorators, docstring documenting a subset) -> function parser, with the signature "
    "as reference; (d) arbitrary token soups -> docstring parser, shape checked whenever it returns; (e) LIVE function / "
    "class objects (the generated source is written to a file and imported) -> function / class parser. Non-trivial = "
    ">=2 params or a section besides params. Distinct = SHA-1 of the input."
)
TIERS = {"quick": {"shards": 8, "n": 2500, "budget_s": 200, "fuzz_runs": 3000, "fuzz_shards": 2}, "thorough": {"shards": 16, "n": 20000, "budget_s": 2700, "fuzz_runs": 300000}}
FLOOR = {"quick": 1000, "thorough": 30000}
REQUIRED_LABELS = {"quick": ["class-merge", "explicit-function_type", "src:docstring", "src:function-handshaped", "src:emitted", "src:text", "star-args", "live:function", "live:class", "json:$ref", "json:anyOf", "json:nullable", "json:items", "sql:class", "sql:table", "sql:pk+fk-on-one-column", "class:return_type-attribute-not-last"], "thorough": []}
ASSUMPTIONS = ["on ill-formed text (not derivable from the section grammar) the clauses 'name non-empty' and 'typ parses' are relaxed (P30); all other shape clauses stay"]
TOK = [":param ", ":type ", ":return: ", ":rtype: ", ":cvar ", "Args:\n", "Returns:\n", "Raises:\n", "Kwargs:\n", "Parameters\n----------\n", "Returns\n-------\n", "alpha", "beta_x", "*args", "**kwargs", "(int)", " (str, optional)", "```int```", "```", ":", "\n", "  ", "    ", "Defaults to 5", "Defaults to ", ".", " or ", "int", "Optional[str]", " : ", "the value"]


def init_worker(ctx):
    hops.load()


def shape(ir, allow_empty_name=False, allow_bad_typ=False, allow_none_key=False):
    errs = []
    if not isinstance(ir, dict):
        return ["not-a-mapping:%s" % type(ir).__name__]
    for k in ("name", "params"):
        if k not in ir:
            errs.append("missing-key:" + k)
    if "doc" in ir and not isinstance(ir.get("doc"), str) and ir.get("doc") is not None:
        errs.append("doc-not-str:%s" % type(ir.get("doc")).__name__)
    ps = ir.get("params")
    if not hasattr(ps, "items"):
        errs.append("params-not-mapping")
        ps = {}
    ret = ir.get("returns")
    if ret is not None:
        if not hasattr(ret, "items"):
            errs.append("returns-not-mapping")
            ret = {}
        elif list(ret) != ["return_type"]:
            errs.append("returns-keys:%s" % list(ret))
    seen = set()
    for n, p in list(ps.items()) + list((ret or {}).items()):
        if not isinstance(n, str):
            errs.append("name-not-str:%r" % (n,))
            continue
        if not n or not n.strip():
            if not allow_empty_name:
                errs.append("name-empty")
            continue
        if n.startswith("*"):
            errs.append("name-star:%s" % n)
        if n in seen and n != "return_type":
            errs.append("name-duplicate:%s" % n)
        seen.add(n)
        if not isinstance(p, dict):
            errs.append("entry-not-dict:%s" % n)
            continue
        extra = set(p) - {"typ", "doc", "default", "x_typ"}
        if extra:
            ex = sorted(map(str, extra))
            if allow_none_key and set(ex) <= {"None", "server_default"}:
                pass
            else:
                errs.append("extra-keys:%s" % ex)
        if "typ" in p and p["typ"] is not None:
            if not isinstance(p["typ"], str):
                errs.append("typ-not-str:%s=%r" % (n, type(p["typ"]).__name__))
            elif not allow_bad_typ:
                try:
                    ast.parse(p["typ"].strip(), mode="eval")
                except SyntaxError:
                    errs.append("typ-unparseable:%s=%r" % (n, p["typ"][:40]))
        if "doc" in p and p["doc"] is not None and not isinstance(p["doc"], str):
            errs.append("param-doc-not-str:%s=%s" % (n, type(p["doc"]).__name__))
    return errs


# ---------------------------------------------------------------------------------------------- case kinds
@st.composite
def case_strategy(draw):
    kind = draw(st.sampled_from(["docstring", "docstring", "function", "function", "emitted", "emitted", "text", "class-merge", "live", "json-handshaped", "sql-handshaped", "class-handshaped"]))
    if kind == "class-handshaped":
        # a class as people write it: annotated attributes, one of them possibly called `return_type` at ANY position,
        # a docstring documenting all, some or none of them
        n = draw(st.integers(1, 5))
        ns = draw(st.lists(gen_ir.names.filter(lambda s: s != "return_type"), min_size=n, max_size=n, unique=True))
        if draw(st.booleans()):
            ns.insert(draw(st.integers(0, len(ns))), "return_type")
        T = {"int": ["0", "5", "-3"], "str": ["'x'", "''"], "bool": ["True", "False"], "float": ["0.5"], "Optional[int]": ["None", "3"]}
        attrs = []
        for a in ns:
            t = draw(st.sampled_from(sorted(T)))
            attrs.append((a, t, draw(st.sampled_from(T[t])) if draw(st.integers(0, 3)) else None))
        documented = [a for a in ns if draw(st.booleans())] if draw(st.booleans()) else (list(ns) if draw(st.booleans()) else [])
        doc = ["Config holder.", ""] + [(":return: the %s" % a if a == "return_type" else ":cvar %s: the %s" % (a, a)) for a in documented]
        lines = ["class Foo(object):", '    """'] + ["    " + l if l else "" for l in doc] + ['    """'] + ["    %s: %s%s" % (a, t, " = %s" % v if v is not None else "") for a, t, v in attrs]
        return {"kind": "class-handshaped", "src": "\n".join(lines) + "\n", "names": ns, "documented": documented}
    if kind == "sql-handshaped":
        # SQLAlchemy models as people write them: every combination of the Column options on one column
        n = draw(st.integers(1, 5))
        ns = draw(st.lists(gen_ir.names.filter(lambda s: s not in ("metadata", "id")), min_size=n, max_size=n, unique=True))
        form = draw(st.sampled_from(["class", "table"]))
        cols = []
        for a in ns:
            args = [draw(st.sampled_from(["Integer", "String", "Boolean", "Float", "JSON", "Text", "String(32)", "Enum('a', 'b', name='%s')" % a, "LargeBinary", "BigInteger"]))]
            if draw(st.integers(0, 2)) == 0:
                args.append('ForeignKey("%s.%s")' % (draw(gen_ir.lit_member).replace("-", "_"), draw(st.sampled_from(["id", "key"]))))
            for opt, val in (("primary_key", "True"), ("nullable", draw(st.sampled_from(["True", "False"]))), ("default", draw(st.sampled_from(["0", "'x'", "True", "None", "1.5"]))), ("doc", repr(draw(gen_ir.descr))), ("comment", repr(draw(gen_ir.descr))), ("index", "True"), ("unique", "True")):
                if draw(st.integers(0, 2)) == 0:
                    args.append("%s=%s" % (opt, val))
            cols.append((a, args))
        if form == "class":
            lines = ["class Foo(Base):", '    """', "    The Foo model", '    """', '    __tablename__ = "foo"', ""] + ["    %s = Column(%s)" % (a, ", ".join(args)) for a, args in cols]
        else:
            lines = ["foo = Table(", '    "foo",', "    metadata,"] + ["    Column(%r, %s)," % (a, ", ".join(args)) for a, args in cols] + ['    comment="The Foo model",', ")"]
        return {"kind": "sql-handshaped", "form": form, "src": "\n".join(lines) + "\n", "names": ns, "both": any("primary_key=True" in " ".join(args) and "ForeignKey" in " ".join(args) for _a, args in cols)}
    if kind == "json-handshaped":
        # JSON-schemas as people write them (not only as cdd emits them): $ref, anyOf, nullable, format, arrays,
        # properties without type or description, `required` any subset
        n = draw(st.integers(0, 5))
        ns = draw(st.lists(gen_ir.names, min_size=n, max_size=n, unique=True))
        T = st.sampled_from(["string", "integer", "number", "boolean", "object", "array"])
        prop = st.one_of(
            st.builds(lambda t, d: {"type": t, "description": d}, T, gen_ir.descr),
            st.builds(lambda t: {"type": t}, T),
            st.builds(lambda d: {"description": d}, gen_ir.descr),
            st.just({}),
            st.builds(lambda ms, d: {"type": "string", "pattern": "|".join(ms), "description": d}, st.lists(gen_ir.lit_member, min_size=1, max_size=3, unique=True), gen_ir.descr),
            st.builds(lambda r: {"$ref": r}, st.sampled_from(["#/components/schemas/Other", "#/$defs/other.Thing", "Other"])),
            st.builds(lambda a, b: {"anyOf": [a, b]}, st.sampled_from([{"type": "string"}, {"type": "integer"}, {"$ref": "#/components/schemas/Other"}]), st.sampled_from([{"type": "string"}, {"type": "number"}, {"$ref": "#/components/schemas/Thing"}])),
            st.builds(lambda t, dflt: {"type": t, "nullable": True, "default": dflt}, T, st.sampled_from([None, 0, "x"])),
            st.just({"type": "string", "format": "date-time"}),
            st.builds(lambda t: {"type": "array", "items": {"type": t}}, T),
            st.builds(lambda d: {"type": "integer", "default": d, "description": "the value"}, st.integers(-5, 5)),
        )
        props = {a: draw(prop) for a in ns}
        sch = {"$id": "https://x/%s.schema.json" % "foo", "type": "object", "properties": props}
        if draw(st.booleans()):
            sch["description"] = draw(gen_ir.descr)
        if draw(st.booleans()):
            sch["required"] = draw(st.lists(st.sampled_from(ns), unique=True)) if ns else []
        return {"kind": "json-handshaped", "schema": sch}
    if kind == "live":
        # a live (imported) function or class object: the `inspect`-based entry of the function / class parsers
        if draw(st.booleans()):
            feat = []
            lines = draw(gen_prog.funcdef(feat=feat))
            return {"kind": "live", "obj": "function", "src": "\n".join(lines) + "\n", "feat": sorted(set(feat))}
        fmt = draw(st.sampled_from(["function", "class"]))
        case = draw(gen_ir.interface("executable", min_params=1, max_params=5, suffix=True))
        with core.quiet():
            src, _ = hops.emit_src(fmt, gen_ir.to_ir(case), docstring_format=draw(st.sampled_from(["rest", "google", "numpydoc"])), **({"function_name": "foo", "function_type": "static"} if fmt == "function" else {"class_name": "Foo"}))
        return {"kind": "live", "obj": fmt, "src": src + "\n", "feat": ["emitted"], "names": [n for n, _p in case["params"]]}
    if kind == "docstring":
        d = draw(gen_doc.docstr(allow_star=True, multiline=True))
        return {"kind": "docstring", "text": d["text"], "style": d["style"], "indent": d["indent"], "footer": d["footer"], "star": any(p["name"].startswith("*") for p in d["params"]), "n": len(d["params"]), "rtyp": d["rtyp"]}
    if kind == "function":
        feat = []
        lines = draw(gen_prog.funcdef(feat=feat))
        return {"kind": "function", "src": "\n".join(lines) + "\n", "feat": sorted(set(feat)), "function_type": draw(st.sampled_from([None, None, "static", "self", "cls"]))}
    if kind == "class-merge":
        feat = []
        lines = draw(gen_prog.classdef(feat=feat))
        return {"kind": "class-merge", "src": "\n".join(lines) + "\n", "feat": sorted(set(feat)), "pick": draw(st.integers(0, 3))}
    if kind == "emitted":
        fmt = draw(st.sampled_from(["class", "pydantic", "function", "argparse", "json", "sqlalchemy", "sqlalchemy_table", "sqlalchemy_hybrid"]))
        profile = "json" if fmt == "json" else ("common" if fmt.startswith("sql") or fmt == "argparse" else "signature")
        case = draw(gen_ir.interface(profile, max_params=5, suffix=True))
        return {"kind": "emitted", "fmt": fmt, "ir": case, "style": draw(st.sampled_from(["rest", "google", "numpydoc"]))}
    return {"kind": "text", "text": draw(st.one_of(st.lists(st.sampled_from(TOK), max_size=14).map("".join), st.text(max_size=60)))}


def strategy(ctx):
    return case_strategy()


LIVE_PREAMBLE = """from typing import *
from typing import Annotated
import os, functools


def deco(*a, **k):
    return a[0] if len(a) == 1 and callable(a[0]) and not k else (lambda f: f)


deco2 = deco
Field = dict


class Base(object):
    pass


class Mixin(object):
    pass


class Forward(object):
    pass


"""
_live_counter = [0]


def import_live(src):
    """write the source into a real file, import it under a fresh module name, return (module, cleanup)"""
    import importlib.util
    import os
    import shutil
    import sys
    import tempfile

    d = tempfile.mkdtemp(prefix="c14_", dir="/dev/shm" if os.path.isdir("/dev/shm") else None)
    _live_counter[0] += 1
    name = "c14_live_mod_%d_%d" % (os.getpid(), _live_counter[0])
    p = os.path.join(d, name + ".py")
    with open(p, "w") as f:
        f.write(LIVE_PREAMBLE + src)
    spec = importlib.util.spec_from_file_location(name, p)
    mod = importlib.util.module_from_spec(spec)
    sys.modules[name] = mod

    def cleanup():
        sys.modules.pop(name, None)
        shutil.rmtree(d, ignore_errors=True)

    try:
        spec.loader.exec_module(mod)
    except BaseException:
        cleanup()
        raise
    return mod, cleanup


def _unique_methods(cnode):
    """methods whose name occurs once in the class body (two generated methods of the same name are the generator's
    duplicate: `merge_inner_function` can only name one of them)"""
    ms = [b for b in cnode.body if isinstance(b, ast.FunctionDef)]
    names = [m.name for m in ms]
    attrs = {t.id for b in cnode.body if isinstance(b, (ast.Assign, ast.AnnAssign)) for t in (b.targets if isinstance(b, ast.Assign) else [b.target]) if isinstance(t, ast.Name)}
    return [m for m in ms if names.count(m.name) == 1 and m.name not in attrs]


def sig_names(fn):
    a = fn.args
    strict = [x.arg for x in a.args + a.kwonlyargs]
    loose = [x.arg for x in a.posonlyargs] + ([a.vararg.arg] if a.vararg else []) + ([a.kwarg.arg] if a.kwarg else [])
    return strict, loose


def oracle(case):
    r = Result()
    cdd = hops.load()["cdd"]
    kind = case["kind"]
    r.label("src:" + ("function-handshaped" if kind in ("function", "class-merge") else kind))
    cleanup = None
    if kind == "live":
        tree = ast.parse(case["src"])
        top = tree.body[0]
        try:
            mod, cleanup = import_live(case["src"])
        except Exception as e:  # the generated module itself does not import (not a parser matter)
            r.label("n/a:module-does-not-import")
            r.exc.append("live-import %s" % type(e).__name__)
            return r
    try:
        with core.quiet():
            if kind == "sql-handshaped":
                node = ast.parse(case["src"]).body[0]
                ir = cdd.sqlalchemy.parse.sqlalchemy(node) if case["form"] == "class" else cdd.sqlalchemy.parse.sqlalchemy_table(node)
            elif kind == "json-handshaped":
                ir = cdd.json_schema.parse.json_schema(json.loads(json.dumps(case["schema"])))
            elif kind == "live":
                obj = getattr(mod, top.name)
                if isinstance(obj, (staticmethod, classmethod)):
                    obj = obj.__func__
                ir = (cdd.function.parse.function if case["obj"] == "function" else cdd.class_.parse.class_)(obj)
            elif kind == "docstring":
                ir = cdd.docstring.parse.docstring(case["text"])
                well_formed = True
            elif kind == "text":
                ir = cdd.docstring.parse.docstring(case["text"])
                well_formed = False
            elif kind == "function":
                node = ast.parse(case["src"]).body[0]
                # an explicit function_type must not change which parameters are found (only the recorded `type`)
                ir = cdd.function.parse.function(node, **({"function_type": case["function_type"]} if case.get("function_type") else {}))
            elif kind == "class-handshaped":
                ir = cdd.class_.parse.class_(ast.parse(case["src"]).body[0])
            elif kind == "class-merge":
                cnode = ast.parse(case["src"]).body[0]
                methods = _unique_methods(cnode)
                if not methods:
                    r.label("n/a:duplicate-method-names")
                    return r
                inner = methods[case["pick"] % len(methods)]
                ir = cdd.class_.parse.class_(cnode, merge_inner_function=inner.name)
            else:
                fmt = case["fmt"]
                x = gen_ir.to_ir(case["ir"])
                if fmt == "json":
                    sch = cdd.json_schema.emit.json_schema(x)
                    ir = cdd.json_schema.parse.json_schema(json.loads(json.dumps(sch)))
                else:
                    src, _ = hops.emit_src(fmt, x, docstring_format=case["style"])
                    ir = hops.parse_src(fmt, src)
    except Exception as e:
        # returns-or-raises: an exception is outside the property (bucketed), except for inputs the emitters made
        r.exc.append("%s %s" % (kind if kind != "emitted" else case["fmt"], core.exc_bucket(e)))
        if kind == "emitted" and case["fmt"].startswith("sqlalchemy") and case["style"] != "rest" and case["ir"]["returns"] is not None and is_open("P22"):
            r.covered("P22")  # the table docstring holds only a return entry: google/numpydoc 'return but no parameters'
        elif kind == "emitted":
            r.fail("parser-raises-on-emitted", "%s/%s: %s" % (case["fmt"], case["style"], core.exc_bucket(e)))
        return r
    finally:
        if cleanup:
            cleanup()
    if kind == "text":
        errs = shape(ir, allow_empty_name=is_open("P30"), allow_bad_typ=is_open("P30"))
        if is_open("P30"):
            r.covered("P30") if shape(ir) != errs else None
    elif kind == "docstring":
        # the well-formed grammar; known classes: a footer / rtype parsed into garbage entries is P20/P49 (C15), the
        # shape clauses it breaks are 'typ parses' (absorbed footer) and 'name' (footer line as a name with blanks)
        footer_garbage = case["footer"] and (is_open("P20") or is_open("P49"))
        errs = shape(ir, allow_bad_typ=footer_garbage)
        if footer_garbage:
            errs = [e for e in errs if not e.startswith("name-star")]
        if case["star"]:
            r.label("star-args")
    elif kind == "class-handshaped":
        errs = shape(ir)
        want = [a for a in case["names"] if a != "return_type"]
        if sorted(ir["params"]) != sorted(want):  # each attribute exactly once (documented ones come first: order is not C14's matter)
            errs.append("class-attributes:%s->params %s" % (want, list(ir["params"])))
        if "return_type" in case["names"]:
            r.label("class:return_type-attribute" + ("-not-last" if case["names"][-1] != "return_type" else "-last"))
            if list(ir.get("returns") or {}) != ["return_type"]:
                errs.append("class-return-entry:%s" % list(ir.get("returns") or {}))
    elif kind == "sql-handshaped":
        errs = shape(ir, allow_none_key=is_open("P29"))
        if list(ir["params"]) != case["names"]:
            errs.append("names:%s->%s" % (case["names"], list(ir["params"])))
        r.label("sql:" + case["form"])
        if case["both"]:
            r.label("sql:pk+fk-on-one-column")
    elif kind == "json-handshaped":
        errs = shape(ir)
        want = list(case["schema"]["properties"])
        if list(ir["params"]) != want:
            errs.append("names:%s->%s" % (want, list(ir["params"])))
        for p in case["schema"]["properties"].values():
            for k in ("$ref", "anyOf", "nullable", "format", "items", "pattern"):
                if k in p:
                    r.label("json:" + k)
    elif kind == "live":
        errs = shape(ir)
        r.label("live:" + case["obj"])
        got = list(ir["params"])
        if case["obj"] == "class":
            want = case["names"]
        else:
            want, loose = sig_names(top)
            if loose:
                r.label("star-args")
        for n in want:
            if got.count(n) != 1:
                errs.append("signature-param-%s:%s" % ("missing" if got.count(n) == 0 else "duplicated", n))
        for f in case["feat"]:
            r.label("fn:" + f)
    elif kind in ("function", "class-merge"):
        errs = shape(ir)
        if kind == "function":
            node = ast.parse(case["src"]).body[0]
        else:
            cnode = ast.parse(case["src"]).body[0]
            methods = _unique_methods(cnode)
            node = methods[case["pick"] % len(methods)]
            r.label("class-merge")
        if case.get("function_type"):
            r.label("explicit-function_type")
        strict, loose = sig_names(node)
        if strict and strict[0] in ("self", "cls") and kind == "class-merge":
            strict = strict[1:]
        got = list(ir["params"])
        for n in strict:
            if n in ("self", "cls"):
                continue
            c = got.count(n)
            if c != 1:
                errs.append("signature-param-%s:%s" % ("missing" if c == 0 else "duplicated", n))
        for n in loose:
            if got.count(n) != 1:
                if is_open("P35"):
                    r.covered("P35")
                else:
                    errs.append("signature-param-missing:%s" % n)
        if loose:
            r.label("star-args")
        for f in case["feat"]:
            r.label("fn:" + f)
    else:
        sql = case["fmt"].startswith("sqlalchemy")
        errs = shape(ir, allow_none_key=sql and is_open("P29"))
        want = [n for n, _p in case["ir"]["params"]]
        got = [n for n in ir["params"] if not (sql and n == "id" and "id" not in want)]
        if got != want:
            errs.append("names:%s->%s" % (want, got))
        r.label("fmt:" + case["fmt"])
    for e in errs:
        r.fail(e.split(":")[0], e)
    n_params = len(ir.get("params") or {})
    r.nontrivial = n_params >= 2 or bool(ir.get("returns"))
    return r


def layer_main(ctx):
    ctx.run_given("parsers", strategy(ctx), oracle, ctx.cfg["n"])


# ---- coverage-guided layer (atheris) over the docstring parser: arbitrary text, shape oracle whenever it returns ------
def _fuzz_decode(data):
    if not data:
        return {"kind": "text", "text": ""}
    mode, rest = data[0], data[1:]
    if mode % 3 == 0:
        text = rest.decode("utf-8", "replace")
    elif mode % 3 == 1:
        text = "".join(TOK[b % len(TOK)] for b in rest)
    else:
        text = "".join(chr(b) if 0x20 <= b <= 0x7E or b == 0x0A else TOK[b % len(TOK)] for b in rest)
    return {"kind": "text", "text": text}


def _fuzz_corpus():
    return [
        b"\x00Sum.\n\n:param a: the a. Defaults to 5\n:type a: ```int```\n\n:return: x\n:rtype: ```str```\n",
        b"\x00Sum.\n\nArgs:\n  a (int): the a. Defaults to 5\n  b (Optional[str]): the b\n\nReturns:\n  str: x\n",
        b"\x00Sum.\n\nParameters\n----------\na : int\n  the a\n\nReturns\n-------\nstr\n  x\n",
        b"\x01" + bytes(range(len(TOK))),
    ]


FUZZ = {"atheris": (_fuzz_decode, oracle, _fuzz_corpus), "atheris-empty-corpus": (_fuzz_decode, oracle, lambda: [])}


def layer_fuzz(ctx):
    n = ctx.cfg.get("fuzz_runs", 0)
    if not n or ctx.shard >= ctx.cfg.get("fuzz_shards", ctx.nshards):
        return
    if ctx.shard % 2 == 0:
        ctx.run_fuzz("atheris", n, with_corpus=True, max_len=160)
    else:
        ctx.run_fuzz("atheris-empty-corpus", n, with_corpus=False, max_len=160)


LAYERS = [("parsers", layer_main), ("atheris", layer_fuzz)]


def replay(case):
    return oracle(case)
