"""C18 - every public module imports cleanly on its own, in any order (DESIGN 4/C18).
Finite domain: enumerated (all modules alone; all ordered pairs in the thorough tier)."""
import json
import os
import random
import subprocess
import sys
from concurrent.futures import ThreadPoolExecutor

from vlib import core
from vlib.core import Result

ID = "C18"
RULE = (
    "cases are import histories in FRESH interpreters: (1) `import m` for every non-test module m under cdd/ "
    "(exhaustive, discovered from the tree); (2) ordered pairs `import m1; import m2` - all pairs touching the modules "
    "named in the anchors plus a seeded sample (quick) / all N*(N-1) pairs (thorough); for each unordered pair the "
    "public names bound in m1 and m2 are compared between the two orders. Non-trivial = a history that touches a "
    "module on the parser / sqlalchemy import cycles. Distinct = the history itself."
)
TIERS = {
    "quick": {"shards": 1, "sample_pairs": 300, "anchor_pairs": True, "workers": 16, "budget_s": 280, "claims_exhaustive": False},
    "thorough": {"shards": 1, "sample_pairs": None, "anchor_pairs": True, "workers": 16, "budget_s": 3000, "claims_exhaustive": True},
}
FLOOR = {"quick": 300, "thorough": 1000}
ASSUMPTIONS = [
    "a module is 'public' when it lives under cdd/ and not under cdd/tests/",
    "fresh interpreter = new CPython process with only VERIF_REPO on PYTHONPATH, PYTHONHASHSEED=0",
]
CYCLE_MODULES = [
    "cdd.shared.docstring_parsers", "cdd.shared.parse.utils.parser_utils", "cdd.class_.parse", "cdd.docstring.parse",
    "cdd.sqlalchemy.parse", "cdd.sqlalchemy.utils.emit_utils", "cdd.sqlalchemy.utils.shared_utils",
    "cdd.compound.openapi.utils.emit_utils", "cdd.compound.gen", "cdd.compound.gen_utils", "cdd.function.parse",
    "cdd.compound.openapi.gen_openapi", "cdd.compound.openapi.gen_routes",
]

SNIPPET = r"""
import sys, json, importlib, traceback
mods = sys.argv[1:]
out = {"ok": True, "names": {}}
try:
    for m in mods:
        importlib.import_module(m)
    for m in mods:
        out["names"][m] = sorted(n for n in vars(sys.modules[m]) if not n.startswith("_"))
except BaseException as e:
    out = {"ok": False, "error": "%s: %s" % (type(e).__name__, str(e)[:300]), "tb": traceback.format_exc()[-600:]}
sys.stdout.write(json.dumps(out))
"""


def discover():
    mods = []
    root = os.path.join(core.REPO, "cdd")
    for d, ds, fs in os.walk(root):
        ds[:] = sorted(x for x in ds if x not in ("tests", "__pycache__"))
        rel = os.path.relpath(d, core.REPO).replace(os.sep, ".")
        for f in sorted(fs):
            if f.endswith(".py"):
                mods.append(rel if f == "__init__.py" else rel + "." + f[:-3])
    return sorted(set(mods))


def run_history(mods):
    env = {"PATH": os.environ.get("PATH", ""), "PYTHONPATH": core.REPO, "PYTHONHASHSEED": "0", "PYTHONDONTWRITEBYTECODE": "1", "HOME": os.environ.get("HOME", "/root")}
    try:
        p = subprocess.run([sys.executable, "-c", SNIPPET] + list(mods), env=env, capture_output=True, text=True, timeout=120, cwd="/")
    except subprocess.TimeoutExpired:
        return {"ok": False, "error": "import did not finish in 120 s", "tb": ""}
    try:
        return json.loads(p.stdout)
    except Exception:
        return {"ok": False, "error": "interpreter exited %s" % p.returncode, "tb": (p.stderr or "")[-600:]}


def oracle_single(m):
    r = Result()
    out = run_history([m])
    if not out["ok"]:
        r.fail("import-alone", "import %s -> %s" % (m, out["error"]))
    r.nontrivial = m in CYCLE_MODULES
    r.label("single")
    return r


def oracle_pair(pair):
    """pair = [m1, m2]; runs both orders"""
    m1, m2 = pair
    r = Result()
    a = run_history([m1, m2])
    b = run_history([m2, m1])
    for order, out in (((m1, m2), a), ((m2, m1), b)):
        if not out["ok"]:
            r.fail("import-pair", "import %s; import %s -> %s" % (order[0], order[1], out["error"]))
    if a["ok"] and b["ok"]:
        for m in (m1, m2):
            if a["names"][m] != b["names"][m]:
                diff = sorted(set(a["names"][m]) ^ set(b["names"][m]))
                r.fail("names-differ", "public names of %s differ between the two import orders of (%s, %s): %s" % (m, m1, m2, diff[:8]))
    r.nontrivial = m1 in CYCLE_MODULES or m2 in CYCLE_MODULES
    r.label("pair", "pair-on-cycle" if r.nontrivial else "pair-off-cycle")
    return r


def layer_all(ctx):
    mods = discover()
    ctx.stats.notes.append("%d public modules discovered" % len(mods))
    workers = ctx.cfg["workers"]
    # ---- layer 1: every module alone (always exhaustive)
    ctx.layer = "single"
    with ThreadPoolExecutor(workers) as ex:
        for m, r in zip(mods, ex.map(oracle_single, mods)):
            fails = ctx.record(["import", m], r)
            if fails:
                ctx.violation({"kind": "single", "modules": [m]}, fails)
    ctx.mark_exhaustive("single", "all %d non-test modules, each first in a fresh interpreter" % len(mods))
    # ---- layer 2: unordered pairs, both orders each
    ctx.layer = "pairs"
    allpairs = [(a, b) for i, a in enumerate(mods) for b in mods[i + 1 :]]
    if ctx.cfg["sample_pairs"] is None:
        pairs = allpairs
    else:
        rnd = random.Random(ctx.derived_seed("pairs"))
        anchor = [p for p in allpairs if p[0] in CYCLE_MODULES or p[1] in CYCLE_MODULES]
        rest = [p for p in allpairs if not (p[0] in CYCLE_MODULES or p[1] in CYCLE_MODULES)]
        pairs = anchor + rnd.sample(rest, min(len(rest), ctx.cfg["sample_pairs"]))
    done = 0
    with ThreadPoolExecutor(workers) as ex:
        for chunk_start in range(0, len(pairs), 64):
            if ctx.expired():
                ctx.stats.notes.append("pairs layer cut at deadline after %d of %d pairs" % (done, len(pairs)))
                break
            chunk = pairs[chunk_start : chunk_start + 64]
            for pr, r in zip(chunk, ex.map(oracle_pair, chunk)):
                done += 1
                fails = ctx.record(["import", pr[0], pr[1], "both orders"], r)
                if fails:
                    ctx.violation({"kind": "pair", "modules": list(pr)}, fails)
    if done == len(allpairs):
        ctx.mark_exhaustive("pairs", "all %d unordered pairs in both orders (%d ordered histories)" % (len(allpairs), 2 * len(allpairs)))
    ctx.stats.layers["pairs"]["ordered_histories"] = 2 * done
    ctx.layer = None


LAYERS = [("all", layer_all)]


def replay(case):
    if case["kind"] == "single":
        return oracle_single(case["modules"][0])
    return oracle_pair(case["modules"])
