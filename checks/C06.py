"""C06 - emitted JSON-schema is valid, self-consistent and round-trips (DESIGN 4/C06).
Reference = the jsonschema package's Draft 2020-12 meta-schema validator."""
import json
import re

from hypothesis import strategies as st

from vlib import core, gen_ir, hops
from vlib.core import Result, is_open
from vlib.gen_ir import NoneStr
from vlib.norm import default_view, is_optional, literal_members, normdoc

ID = "C06"
RULE = (
    "a case is one generated interface over JSON-representable types (int,float,str,bool,dict,list,Optional[..],"
    "Literal[str..]; 0..8 params; with/without header and return entry); the emitted schema is json-dumped, checked "
    "against the Draft 2020-12 meta-schema, required<->Optional, defaults validated against their own property "
    "schema, Literal patterns probed with members and three negative generators, and parsed back. Non-trivial = "
    ">=1 Optional, >=1 Literal and >=1 default."
)
TIERS = {"quick": {"shards": 8, "n": 700, "budget_s": 200}, "thorough": {"shards": 16, "n": 25000, "budget_s": 2700}}
FLOOR = {"quick": 300, "thorough": 20000}
REQUIRED_LABELS = {"quick": ["d:collection", "kind:literal", "kind:optliteral", "kind:dict", "kind:jlist", "empty-header", "n_params=0", "param-without-description", "default-$id", "multi-paragraph-header", "header:two-or-more-blank-lines", "half-return-entry", "full-return-entry"], "thorough": []}
ASSUMPTIONS = ["jsonschema %s Draft202012Validator is the reference for schema validity" % "(offline wheel)"]


def init_worker(ctx):
    global Draft202012Validator
    hops.load()
    from jsonschema import Draft202012Validator


@st.composite
def _blank_some_docs(draw, base):
    """'with or without prose description': some parameters lose their description (empty string or no key at all)"""
    case = draw(base)
    for _n, p in case["params"]:
        k = draw(st.integers(0, 5))
        if k == 0:
            p["doc"] = ""
        elif k == 1:
            p.pop("doc", None)
    case["identifier"] = draw(st.sampled_from(["https://example.com/foo.schema.json", None]))
    if case.get("returns") and draw(st.integers(0, 2)) == 0:
        # 'with or without ... return entry': a HALF return entry - a type without description (a bare `-> bool`), or a
        # description without type
        case["returns"] = dict(case["returns"])
        case["returns"].pop(draw(st.sampled_from(["doc", "typ"])), None)
        case["half_return"] = True
    if draw(st.integers(0, 3)) == 0:
        # 'with ... prose description': a long description of several paragraphs, separated by one to three blank
        # lines, some paragraphs of two lines (JSON carries the text verbatim, so the line structure must survive)
        paras = draw(st.lists(st.lists(gen_ir.sentence(2, 6).map(lambda t: t.capitalize() + "."), min_size=1, max_size=2).map("\n".join), min_size=2, max_size=4))
        doc = paras[0]
        for para in paras[1:]:
            doc += "\n" * draw(st.integers(2, 4)) + para
        case["doc"] = doc
    return case


def strategy(ctx):
    return _blank_some_docs(_base(ctx))


def _base(ctx):
    return st.one_of(
        gen_ir.interface("json", min_params=0, max_params=8, suffix=False, returns=True, min_literal=1),
        gen_ir.interface("json", min_params=0, max_params=8, suffix=False, returns=True, min_literal=1, doc=gen_ir.mixed_descr, name_strategy=gen_ir.rich_names),
    )


def negatives(members):
    """strings that are NOT members: (kind, string)"""
    out = []
    alphabet = "qzjxv"
    cand = "".join(c for c in alphabet if all(c not in m for m in members)) or "0"
    out.append(("disjoint", cand[0] * 3))
    for m in members:
        sup = m + cand[0]
        if sup not in members:
            out.append(("superstring", sup))
            out.append(("superstring", cand[0] + m))
        if len(m) > 1 and m[:-1] not in members:
            out.append(("prefix", m[:-1]))
    return out


def oracle(case):
    r = Result()
    ir = gen_ir.to_ir(case)
    ps = case["params"]
    r.label(*gen_ir.labels_of(case))
    if any(not p.get("doc") for _n, p in ps):
        r.label("param-without-description")
    if "identifier" in case and not case["identifier"]:
        r.label("default-$id")
    r.nontrivial = any(is_optional(p["typ"]) for _n, p in ps) and any("Literal" in p["typ"] for _n, p in ps) and any("default" in p for _n, p in ps)
    try:
        with core.quiet():
            sch = hops.load()["cdd"].json_schema.emit.json_schema(ir, *([case.get("identifier", "https://example.com/foo.schema.json")] if case.get("identifier", "https://example.com/foo.schema.json") else []))
    except Exception as e:
        r.fail("emit-raises", core.exc_bucket(e))
        return r
    try:
        text = json.dumps(sch)
    except Exception as e:
        r.fail("serialisable", repr(e))
        return r
    sch = json.loads(text)
    try:
        Draft202012Validator.check_schema(sch)
    except Exception as e:
        r.fail("meta-schema", str(e).splitlines()[0][:300])
    props = sch.get("properties", {})
    if list(props) != [n for n, _p in ps]:
        r.fail("property-names", "%s vs %s" % (list(props), [n for n, _p in ps]))
        return r
    req = sch.get("required", [])
    if len(req) != len(set(req)):
        r.fail("required-duplicates", str(req))
    for n, p in ps:
        opt = is_optional(p["typ"])
        if (n in req) == opt:
            r.fail("required", "%s (%s): in required=%s" % (n, p["typ"], n in req))
        prop = props[n]
        if "default" in prop:
            try:
                if not Draft202012Validator(prop).is_valid(prop["default"]):
                    r.fail("default-validates", "%s: default %r does not validate against %r" % (n, prop["default"], prop))
            except Exception as e:
                r.fail("default-validates", "%s: %r" % (n, e))
        if "default" in p and p["default"] != NoneStr:
            if "default" not in prop or (type(prop["default"]), prop["default"]) != (type(p["default"]), p["default"]):
                r.fail("default-emitted", "%s: described %r, schema %r" % (n, p["default"], prop.get("default", "<absent>")))
        ms = literal_members(p["typ"])
        if ms is not None:
            v = Draft202012Validator({"type": prop.get("type"), "pattern": prop.get("pattern", "")})
            if prop.get("type") != "string" or "pattern" not in prop:
                r.fail("literal-pattern", "%s: %r" % (n, prop))
                continue
            for m in ms:
                if not v.is_valid(m):
                    r.fail("literal-member-rejected", "%s: member %r rejected by %r" % (n, m, prop["pattern"]))
            for kind, s in negatives(ms):
                if v.is_valid(s):
                    if kind == "superstring" and is_open("P15"):
                        r.covered("P15")
                    elif kind == "prefix" and any(o != s and o in s for o in ms) and is_open("P15"):
                        r.covered("P15")  # the prefix contains another (shorter) member: same unanchored-match root cause
                    else:
                        r.fail("literal-nonmember-accepted", "%s: %s %r accepted by %r" % (n, kind, s, prop["pattern"]))
    # ---- round trip
    try:
        with core.quiet():
            back = hops.fix(hops.load()["cdd"].json_schema.parse.json_schema(json.loads(text)))
    except Exception as e:
        r.fail("parse-raises", "%s on %s" % (core.exc_bucket(e), text[:300]))
        return r
    if list(back["params"]) != [n for n, _p in ps]:
        r.fail("rt-names", "%s vs %s" % (list(back["params"]), [n for n, _p in ps]))
        return r
    for n, p in ps:
        b = back["params"][n]
        wt, gt = p["typ"], b.get("typ")
        mw = literal_members(wt)
        if mw is not None:
            mg = literal_members(gt)
            if mg is None or sorted(mw) != sorted(mg) or is_optional(wt) != is_optional(gt):
                r.fail("rt-typ", "%s: %r -> %r" % (n, wt, gt))
        elif wt != gt:
            r.fail("rt-typ", "%s: %r -> %r" % (n, wt, gt))
        if default_view(p) != default_view(b, typ=wt):
            r.fail("rt-default", "%s (%s): %r -> %r" % (n, wt, default_view(p), default_view(b, typ=wt)))
        if normdoc(p.get("doc")) != normdoc(b.get("doc")):
            r.fail("rt-doc", "%s: %r -> %r" % (n, p.get("doc"), b.get("doc")))
        extra = set(b) - {"typ", "doc", "default", "x_typ"}
        if extra:
            r.fail("rt-keys", "%s: %s" % (n, sorted(extra)))
    if normdoc(back.get("doc")) != normdoc(_expected_header(case)):
        r.fail("rt-header", "%r -> %r" % (_expected_header(case), back.get("doc")))
    # the return entry travels inside `description` (as the ReST docstring of the interface) and must come back
    wr, gr = case.get("returns"), (back.get("returns") or {}).get("return_type")
    if wr:
        r.label("has-return-entry", "half-return-entry" if case.get("half_return") else "full-return-entry")
        if gr is None:
            r.fail("rt-returns", "return entry %r is gone after the round-trip (doc came back as %r)" % (wr, back.get("doc")))
        else:
            if wr.get("typ") != gr.get("typ"):
                r.fail("rt-returns", "return type %r -> %r" % (wr.get("typ"), gr.get("typ")))
            if normdoc(wr.get("doc")) != normdoc(gr.get("doc")):
                r.fail("rt-returns", "return description %r -> %r" % (wr.get("doc"), gr.get("doc")))
    elif gr is not None:
        r.fail("rt-returns", "a return entry %r was invented" % (gr,))
    if "\n" in (case["doc"] or ""):
        r.label("multi-paragraph-header")
        if "\n\n\n" in case["doc"]:
            r.label("header:two-or-more-blank-lines")
        lines = lambda t: [l.strip() for l in (t or "").strip().split("\n")]  # noqa: E731
        if lines(back.get("doc")) != lines(case["doc"]):
            r.fail("rt-header-lines", "the lines (blank ones included) of the prose changed: %r -> %r" % (case["doc"], back.get("doc")))
    return r


def _expected_header(case):
    """json_schema has no slot for the return entry: the emitter documents it by writing the ReST docstring of the
    whole interface into `description`; the parser re-reads that docstring.  Only the header prose is compared."""
    return case["doc"]


def layer_main(ctx):
    ctx.run_given("schema", strategy(ctx), oracle, ctx.cfg["n"])


LAYERS = [("schema", layer_main)]


def replay(case):
    return oracle(case)
