"""C20 - exmod --dry-run writes nothing; a real run stays inside the output dir (DESIGN 4/C20)."""
import ast
import io
import os
import shutil
import sys
import tempfile

from hypothesis import strategies as st

from vlib import core, gen_ir, hops, monitor
from vlib.core import Result, is_open

ID = "C20"
RULE = (
    "a case is a generated package tree in a temp root (uniquely named package on sys.path, 1..3 levels, modules with "
    "classes emitted from generated interfaces and re-exported through __init__/__all__) x emit kind x recursive "
    "on/off x blacklist / whitelist subsets of the module FQNs x dry-run on/off x --emit-sqlalchemy-submodule x output "
    "directory absent / empty / populated by a previous real run of the same configuration; observed through a "
    "recursive snapshot (type, size, mtime_ns, sha1) of the whole temp root AND the audit log of write events. "
    "Non-trivial = >=2 modules and (dry-run or a non-empty black/whitelist). Distinct = SHA-1 of the case."
)
TIERS = {"quick": {"shards": 8, "n": 16, "budget_s": 230}, "thorough": {"shards": 16, "n": 600, "budget_s": 2700}}
FLOOR = {"quick": 40, "thorough": 2000}
REQUIRED_LABELS = {"quick": ["module-with-unexported-helper", "dry-run", "real-run", "out:populated", "out:absent", "out:empty", "recursive", "blacklist", "sqlalchemy-submodule", "init-reexports-subpackage", "root-lists", "via-cli"], "thorough": []}
ASSUMPTIONS = [
    "generated trees for black/whitelist cases do not re-export across the list boundary; the clause is checked at the granularity the tool implements (package FQN)",
    "P31: emit kinds pydantic / json_schema / sqlalchemy raise TypeError; for them only 'stays inside the output dir / source untouched / dry-run writes nothing' is checked, which holds whether or not the call raises",
]
EMITS = ["class", "function", "argparse", "pydantic", "json_schema", "sqlalchemy", "sqlalchemy_table", "sqlalchemy_hybrid"]
_counter = [0]


def init_worker(ctx):
    global cdd, eu
    cdd = hops.load()["cdd"]
    import cdd.__main__
    import cdd.compound.exmod
    import cdd.compound.exmod_utils as eu

    monitor.install()


@st.composite
def package_tree(draw):
    """-> {"modules": {relpath: [class names]}, "irs": {class name: interface}, "levels": n}"""
    levels = draw(st.integers(1, 3))
    mods = {}
    irs = {}
    used = set()

    def cls_names(k):
        out = []
        for _ in range(k):
            n = draw(gen_ir.names.map(lambda s: s.capitalize()).filter(lambda s: s not in used and s not in ("Base", "None", "True", "False")))
            used.add(n)
            irs[n] = draw(gen_ir.interface("common", min_params=1, max_params=3, returns=False, min_literal=2))
            out.append(n)
        return out

    path = ""
    helpers = {}
    for lv in range(levels):
        for i in range(draw(st.integers(1, 2))):
            rel = "%smod_%d%d" % (path, lv, i)
            mods[rel] = cls_names(draw(st.integers(1, 2)))
            if draw(st.integers(0, 2)) == 0:
                helpers[rel] = cls_names(1)  # defined in the module but NOT exported through __all__ / __init__
        path += "sub%d/" % lv
    # a package __init__ may also re-export what its sub-package's __init__ exports (`from pkg.sub0 import X`)
    reexport = draw(st.booleans()) if levels > 1 else False
    return {"modules": mods, "helpers": helpers, "irs": irs, "levels": levels, "reexport": reexport}


@st.composite
def case_strategy(draw):
    tree = draw(package_tree())
    emit = draw(st.sampled_from(EMITS))
    fq_mods = sorted(tree["modules"])
    lst = draw(st.sampled_from(["none", "none", "blacklist", "whitelist"]))
    # the list holds whole sub-packages (the granularity the tool implements) or leaf modules of the top package
    cands = sorted({m.rsplit("/", 1)[0] for m in fq_mods if "/" in m}) or []
    chosen = draw(st.lists(st.sampled_from(cands), max_size=2, unique=True)) if cands and lst != "none" else []
    return {
        "tree": tree,
        "emit": emit,
        "recursive": draw(st.booleans()),
        "sqlsub": emit.startswith("sqlalchemy") and draw(st.booleans()),
        "emit_as_list": draw(st.booleans()),  # the CLI always passes a list
        "cli": draw(st.integers(0, 2)) == 0,
        "list": lst if chosen else "none",
        "chosen": chosen,
    }


def strategy(ctx):
    return case_strategy()


def write_tree(root, pkg, tree):
    base = os.path.join(root, pkg)
    by_dir = {}
    for rel, classes in tree["modules"].items():
        d, _, m = rel.rpartition("/")
        by_dir.setdefault(d, []).append((m, classes))
    alldirs = set()
    for d in by_dir:
        parts = d.split("/") if d else []
        for i in range(len(parts) + 1):
            alldirs.add("/".join(parts[:i]))
    own = {d: [c for _m, cs in by_dir.get(d, []) for c in cs] for d in alldirs}
    for d in sorted(alldirs):
        os.makedirs(os.path.join(base, d), exist_ok=True)
        fq = ".".join([pkg] + (d.split("/") if d else []))
        lines, exported, re_lines, re_exported = [], [], [], []
        if tree.get("reexport"):
            for child in sorted(c for c in alldirs if c and c.rpartition("/")[0] == d and c != d):
                if own.get(child):
                    re_lines.append("from %s.%s import %s" % (fq, child.rpartition("/")[2], ", ".join(own[child])))
                    re_exported += own[child]
        for m, classes in by_dir.get(d, []):
            lines.append("from %s.%s import %s" % (fq, m, ", ".join(classes)))
            exported += classes
            with open(os.path.join(base, d, m + ".py"), "w") as f:
                parts = ["from typing import *", ""]
                for c in classes + tree.get("helpers", {}).get((d + "/" if d else "") + m, []):
                    with core.quiet():
                        src, _ = hops.emit_src("class", gen_ir.to_ir(tree["irs"][c], name=c), class_name=c)
                    parts += [src, ""]
                parts.append("__all__ = %r" % classes)
                f.write("\n".join(parts) + "\n")
        lines += re_lines
        exported += re_exported
        lines.append("__all__ = %r" % exported)
        with open(os.path.join(base, d, "__init__.py"), "w") as f:
            f.write("\n".join(lines) + "\n")


def run_exmod(case, pkg, outdir, dry):
    buf = io.StringIO()
    old = eu.EXMOD_OUT_STREAM
    eu.EXMOD_OUT_STREAM = buf
    chosen = [pkg + "." + c.replace("/", ".") for c in case["chosen"]]
    try:
        with core.quiet():
            if case.get("cli"):
                # the same run through `python -m cdd exmod` (absent lists arrive as None, --no-word-wrap as False)
                argv = ["exmod", "--module", pkg, "--emit", case["emit"], "--output-directory", outdir, "--target-module-name", "gold"]
                for c in chosen if case["list"] != "none" else []:
                    argv += ["--" + case["list"], c]
                argv += (["--emit-sqlalchemy-submodule"] if case["sqlsub"] else []) + (["--recursive"] if case["recursive"] else []) + (["--dry-run"] if dry else [])
                cdd.__main__.main(argv)
                return None
            cdd.compound.exmod.exmod(
                emit_name=[case["emit"]] if case.get("emit_as_list") else case["emit"], module=pkg, blacklist=chosen if case["list"] == "blacklist" else [], whitelist=chosen if case["list"] == "whitelist" else [],
                output_directory=outdir, target_module_name="gold", mock_imports=False, emit_sqlalchemy_submodule=case["sqlsub"], extra_modules=None,
                no_word_wrap=None, recursive=case["recursive"], dry_run=dry,
            )
        return None
    except BaseException as e:
        if isinstance(e, (core.CaseTimeout, KeyboardInterrupt)):
            raise
        return e
    finally:
        eu.EXMOD_OUT_STREAM = old


CELLS = [(d, o) for d in (True, False) for o in ("absent", "empty", "populated")]


def oracle(case):
    """the two small axes dry-run x output-directory state are enumerated inside each case (coverage balance)"""
    r = Result()
    for dry, out in case.get("cells") or CELLS:
        one(r, dict(case, dry=dry, out=out))
    return r


def one(r, case):
    r.label("emit:" + ("sqlalchemy" if case["emit"].startswith("sqlalchemy") else case["emit"]), "dry-run" if case["dry"] else "real-run", "out:" + case["out"], "levels=%d" % case["tree"]["levels"])
    if case["recursive"]:
        r.label("recursive")
    if case["list"] != "none":
        r.label(case["list"])
    if case["sqlsub"]:
        r.label("sqlalchemy-submodule")
    if case["tree"].get("helpers"):
        r.label("module-with-unexported-helper")
    if case["tree"].get("reexport"):
        r.label("init-reexports-subpackage")
    r.label("emit-name:list" if case.get("emit_as_list") else "emit-name:str")
    r.label("via-cli" if case.get("cli") else "via-api")
    _counter[0] += 1
    root = tempfile.mkdtemp(prefix="c20_", dir="/dev/shm" if os.path.isdir("/dev/shm") else None)
    pkg = "vq%d_%d" % (os.getpid(), _counter[0])
    sys.path.insert(0, root)
    try:
        write_tree(root, pkg, case["tree"])
        outdir = os.path.join(root, "out")
        if case["out"] == "empty":
            os.mkdir(outdir)
        elif case["out"] == "populated":
            run_exmod(case, pkg, outdir, dry=False)  # history: a previous real run of the same configuration
            for m in [m for m in sys.modules if m.split(".")[0] == pkg]:
                del sys.modules[m]
        before = monitor.snapshot(root)
        with monitor.recording() as events:
            exc = run_exmod(case, pkg, outdir, case["dry"])
        events = list(events)
        after = monitor.snapshot(root)
        if exc is not None:
            r.exc.append(core.exc_bucket(exc))
            r.label("exmod-raised")
        created, deleted, changed = monitor.snapshot_diff(before, after)
        writes = [(ev, p) for ev, p in monitor.write_events(events, only_from=core.REPO) if os.path.abspath(p).startswith(root) or not p.startswith(("/dev/", "/proc/"))]
        src_root = os.path.join(root, pkg)
        if case["dry"]:
            if created or deleted or changed:
                r.fail("dry-run-wrote", "dry run created %s deleted %s changed %s" % ([c[len(root):] for c in created[:4]], [c[len(root):] for c in deleted[:4]], [c[len(root):] for c in changed[:4]]))
            fs_writes = [(ev, p) for ev, p in writes if not p.endswith(".pyc") and "__pycache__" not in p]
            if fs_writes:
                r.fail("dry-run-write-event", "dry run performed %s" % fs_writes[:4])
        else:
            bad = [p for p in created + deleted + changed if not (p == outdir or p.startswith(outdir + os.sep)) and "__pycache__" not in p and p != root]
            if bad:
                r.fail("outside-output-dir", "real run touched %s" % [b[len(root):] for b in bad[:5]])
            src_touched = [p for p in created + deleted + changed if (p == src_root or p.startswith(src_root + os.sep)) and "__pycache__" not in p]
            if src_touched:
                r.fail("source-modified", "%s" % [b[len(root):] for b in src_touched[:5]])
            ev_out = [(ev, p) for ev, p in writes if os.path.abspath(p).startswith(root) and not os.path.abspath(p).startswith(outdir) and "__pycache__" not in p]
            if ev_out:
                r.fail("write-event-outside", "%s" % ev_out[:4])
            if exc is None or not (case["emit"] in ("pydantic", "json_schema", "sqlalchemy") and is_open("P31")):
                for p in sorted(after):
                    if p.startswith(outdir) and p.endswith(".py") and after[p][0] == "file":
                        src = open(p).read()
                        try:
                            mod = ast.parse(src)
                        except SyntaxError as e:
                            r.fail("generated-not-python", "%s: %s" % (p[len(root):], e))
                            continue
                        defined = set()
                        for x in ast.walk(mod):
                            if isinstance(x, (ast.FunctionDef, ast.ClassDef, ast.AsyncFunctionDef)):
                                defined.add(x.name)
                            elif isinstance(x, ast.ImportFrom) or isinstance(x, ast.Import):
                                defined |= {(a.asname or a.name).split(".")[0] for a in x.names}
                            elif isinstance(x, ast.Assign):
                                defined |= {t.id for t in x.targets if isinstance(t, ast.Name)}
                        for x in mod.body:
                            if isinstance(x, ast.Assign) and getattr(x.targets[0], "id", "") == "__all__":
                                try:
                                    names = ast.literal_eval(x.value)
                                except Exception:
                                    continue
                                missing = [n for n in names if n not in defined]
                                if missing:
                                    r.fail("__all__-undefined", "%s: __all__ names %s which the file neither defines nor imports" % (p[len(root):], missing))
            if case["list"] == "blacklist":
                for c in case["chosen"]:
                    hit = [p for p in created if (os.sep + c.replace("/", os.sep) + os.sep) in p + os.sep and p.startswith(outdir)]
                    if hit and is_open("P56"):
                        r.covered("P56")  # the FQN of a sub-package never matches: mod_path is built as '.sub0'
                    elif hit:
                        r.fail("blacklisted-emitted", "black-listed %s produced %s" % (c, [h[len(root):] for h in hit[:3]]))
        r.nontrivial = r.nontrivial or (len(case["tree"]["modules"]) >= 2 and (case["dry"] or case["list"] != "none"))
    finally:
        sys.path.remove(root)
        for m in [m for m in sys.modules if m.split(".")[0] == pkg]:
            del sys.modules[m]
        shutil.rmtree(root, ignore_errors=True)


LIST_COMBOS = [([], []), (["R"], []), ([], ["R"]), ([], ["O"]), (["R"], ["R"]), (["O"], ["R"]), (["R"], ["O"]), (["R", "O"], ["R", "O"])]


def oracle_root_lists(case):
    """black/whitelist at the granularity that works on the unchanged tree: exmod of a DOTTED module (`pkg.sub0`) whose
    own FQN is / is not in the lists.  All eight combinations are enumerated: the module's own files are written iff
    it is not black-listed and (the whitelist is empty or names it) - a whitelist entry never overrides the blacklist."""
    r = Result()
    r.label("root-lists", "emit:" + case["emit"], "recursive" if case["recursive"] else "flat")
    for B, W in LIST_COMBOS:
        _counter[0] += 1
        root = tempfile.mkdtemp(prefix="c20r_", dir="/dev/shm" if os.path.isdir("/dev/shm") else None)
        pkg = "vr%d_%d" % (os.getpid(), _counter[0])
        sys.path.insert(0, root)
        try:
            write_tree(root, pkg, case["tree"])
            names = {"R": pkg + ".sub0", "O": pkg + ".elsewhere"}
            out = os.path.join(root, "out")
            src_before = monitor.snapshot(os.path.join(root, pkg))
            buf, old = io.StringIO(), eu.EXMOD_OUT_STREAM
            eu.EXMOD_OUT_STREAM = buf
            exc = None
            try:
                with core.quiet():
                    cdd.compound.exmod.exmod(
                        emit_name=[case["emit"]], module=names["R"], blacklist=[names[x] for x in B], whitelist=[names[x] for x in W], output_directory=out,
                        target_module_name="gold", mock_imports=False, emit_sqlalchemy_submodule=False, extra_modules=None, no_word_wrap=None, recursive=case["recursive"], dry_run=False,
                    )
            except BaseException as e:
                if isinstance(e, (core.CaseTimeout, KeyboardInterrupt)):
                    raise
                exc = e
            finally:
                eu.EXMOD_OUT_STREAM = old
            if exc is not None:
                r.exc.append(core.exc_bucket(exc))
                continue
            own = []
            if os.path.isdir(out):
                for dp, _ds, fs in os.walk(out):
                    rel = os.path.relpath(dp, out)
                    if rel == "." or rel.split(os.sep)[0] == "gold":
                        own += [os.path.join(rel, f) for f in fs if f.endswith(".py")]
            want = ("R" not in B) and (not W or "R" in W)
            if bool(own) != want:
                r.fail("root-lists", "blacklist=%s whitelist=%s (R = the module itself): module files %s, expected %s" % (B, W, own[:4] or "none", "some" if want else "none"))
            if monitor.snapshot(os.path.join(root, pkg)) != src_before:
                src_touched = True
                r.fail("source-modified", "root-lists run modified the source package")
        finally:
            sys.path.remove(root)
            for m in [m for m in sys.modules if m.split(".")[0] == pkg]:
                del sys.modules[m]
            shutil.rmtree(root, ignore_errors=True)
    r.nontrivial = True
    return r


def layer_root_lists(ctx):
    strat = case_strategy().filter(lambda c: c["tree"]["levels"] >= 2 and c["emit"] in ("class", "function", "argparse", "sqlalchemy_table", "sqlalchemy_hybrid")).map(lambda c: dict(c, layer="root-lists"))
    ctx.run_given("root-lists", strat, oracle_root_lists, max(2, ctx.cfg["n"] // 4))


def layer_main(ctx):
    ctx.run_given("exmod", strategy(ctx), oracle, ctx.cfg["n"])


LAYERS = [("exmod", layer_main), ("root-lists", layer_root_lists)]


def replay(case):
    return oracle_root_lists(case) if case.get("layer") == "root-lists" else oracle(case)
