"""C15 - docstring prose outside the parameter section is preserved (DESIGN 4/C15)."""
import ast
import re
from copy import deepcopy

from hypothesis import strategies as st

from vlib import core, gen_doc, hops
from vlib.core import Result, is_open

ID = "C15"
RULE = (
    "a case is one grammar-generated docstring: 0..3 header paragraphs of marker words, a parameter/return section "
    "in one of three styles, optional footer (Notes/Example/doctest/Raises + marker words), 0..3 blank lines between "
    "parts, indentation 0/4/8, optional leading newline. Oracle 1: the header/args/footer split is a tiling of the "
    "original (prefix, suffix, no overlap, middle = returned section up to re-indentation, exact concatenation in "
    "column 0), for current = original and for current = the unindented section. Oracle 2: conversion to each of the "
    "three target styles (directly and through function.parse of a def that carries the docstring) keeps every header "
    "line in order and absorbs no marker word into a name, type or default. Non-trivial = header of >=2 lines and "
    "(footer present or indent > 0)."
)
TIERS = {"quick": {"shards": 8, "n": 2500, "budget_s": 200}, "thorough": {"shards": 16, "n": 40000, "budget_s": 2700}}
FLOOR = {"quick": 300, "thorough": 20000}
REQUIRED_LABELS = {"quick": ["style:rest", "style:google", "style:numpydoc", "footer", "indent=8", "indent=0", "header-mentions-section-keyword", "returns-only-section"], "thorough": []}
ASSUMPTIONS = ["the splitter's `current` argument is never indented in real use (its only caller passes the freshly emitted section)"]
TOKENS = (":param", ":type", ":return", ":rtype", "Args:", "Returns:", "Parameters\n", "Returns\n")


def init_worker(ctx):
    global split, cdd
    m = hops.load()
    cdd = m["cdd"]
    from cdd.shared.docstring_utils import parse_docstring_into_header_args_footer as split


def strategy(ctx):
    return gen_doc.docstr(mentions=True, returns_only=True)


def nows(s):
    return re.sub(r"\s+", "", s or "")


def p48(d):
    """the section's last line is the last line of the text and has no trailing newline (decided on the input)"""
    return (not d["text"].endswith("\n")) and not d["footer"] and is_open("P48")


def p78(d):
    """header prose mentioning `Returns` / `Parameters` in a docstring whose section is the return entry alone: the
    mentioned word is taken for the section start (the source notes this false positive)"""
    return bool(d.get("mention")) and not d["params"] and is_open("P78")


def check_split(r, d):
    orig = d["text"]
    section = d["section"]
    tiling_only = p48(d)
    if tiling_only:
        r.covered("P48")
    for tag, cur in (("cur=orig", orig), ("cur=section", section + "\n")):
        try:
            h, a, f = split(cur, orig)
        except Exception as e:
            r.fail("split-raises", "%s %s" % (tag, core.exc_bucket(e)))
            continue
        h, a, f = h or "", a or "", f or ""
        if not orig.startswith(h):
            r.fail("header-not-prefix", "%s header %r" % (tag, h[:80]))
            continue
        if not orig.endswith(f):
            r.fail("footer-not-suffix", "%s footer %r" % (tag, f[:80]))
            continue
        if len(h) + len(f) > len(orig):
            r.fail("parts-overlap", "%s |h|=%d |f|=%d |orig|=%d" % (tag, len(h), len(f), len(orig)))
            continue
        mid = orig[len(h) : len(orig) - len(f)]
        if tiling_only:
            if tag == "cur=orig" and d["indent"] == 0 and not orig[:1].isspace() and h + a + f != orig:
                r.fail("concat-neq-original", "%r + %r + %r != %r" % (h[-40:], a[:60], f[:40], orig[:100]))
            continue
        if any(l.strip().startswith(TOKENS[:6]) or l.strip() in ("Parameters", "Returns") for l in h.split("\n")):
            # a section opens on a line that STARTS with a token; a keyword mentioned inside a prose line does not
            r.fail("token-in-header", "%s %r" % (tag, h[-80:]))
        if re.search(r"\bhw\d", mid):
            r.fail("header-word-in-section", "%s %r" % (tag, mid[:120]))
        if re.search(r"\bpd", h) or re.search(r"\bpd", f):
            if is_open("P51"):
                r.covered("P51")  # the section/footer boundary is misplaced by a few characters (tiling still exact)
            else:
                r.fail("param-doc-outside-section", "%s h=%r f=%r" % (tag, h[-60:], f[:60]))
        if tag == "cur=orig":
            if nows(a) != nows(mid):
                r.fail("section-neq-middle", "%s returned %r, middle %r" % (tag, a[:100], mid[:100]))
            if d["indent"] == 0 and not orig[:1].isspace() and h + a + f != orig:
                r.fail("concat-neq-original", "%r + %r + %r != %r" % (h[-40:], a[:60], f[:40], orig[:100]))
        elif d["style"] == "rest" and d["rtyp"] and is_open("P50"):
            r.covered("P50")  # `:rtype:` after `:return:` is cut off the section and returned as footer
        else:
            # the real caller's shape: unindented freshly emitted section against the indented original
            footer_in_section = bool(re.search(r"\bfw\d", mid))  # ReST has no end-of-section marker: the footer may lie inside the middle
            if nows(a) != nows(section) or (nows(h + a + f) != nows(orig) and not footer_in_section):
                if is_open("P51"):
                    r.covered("P51")
                else:
                    r.fail("section-not-returned", "%s returned %r for section %r; reassembled %r" % (tag, a[:100], section[:100], nows(h + a + f)[:120]))


def marker_absorbed(ir):
    out = []
    for n, p in list((ir.get("params") or {}).items()) + list((ir.get("returns") or {}).items()):
        for k in ("typ", "default"):
            v = p.get(k)
            if isinstance(v, str) and re.search(r"\b[hf]w\d", v):
                out.append("%s.%s=%r" % (n, k, v[:60]))
        if re.search(r"^[hf]w\d", str(n)):
            out.append("name %r" % n)
    return out


def names_types(ir):
    return [(n, p.get("typ")) for n, p in (ir.get("params") or {}).items()]


def check_convert(r, d):
    orig = d["text"]
    src_style = d["style"]
    text_ends_in_section = p48(d)  # (P48, counted in check_split) relaxes the parameter / re-parse clauses only
    rest_footer = src_style == "rest" and d["footer"] and is_open("P20")
    rest_rtyp = src_style == "rest" and d["rtyp"] and is_open("P50")  # relaxes the parameter / re-parse clauses only
    # numpydoc has no end-of-section notion either (P49): footer lines are parsed as parameters.  That relaxes the
    # clauses about parameters / absorption - NOT the header clause: the header prose must survive every conversion
    numpy_footer = src_style == "numpydoc" and d["footer"] and is_open("P49")
    numpy_indented = src_style == "numpydoc" and d["indent"] > 0 and is_open("P25")  # indented numpydoc is not recognised at all
    src_known = "P48" if text_ends_in_section else "P49" if numpy_footer else "P50" if rest_rtyp else "P25" if numpy_indented else None
    try:
        with core.quiet():
            ir0 = cdd.docstring.parse.docstring(orig)
    except Exception as e:
        if rest_footer:
            r.covered("P20")
        elif src_known:
            r.covered(src_known)
        else:
            r.fail("parse-raises", core.exc_bucket(e))
        return
    ab = marker_absorbed(ir0)
    if ab:
        if rest_footer and all("fw" in x for x in ab):
            r.covered("P20")
        elif src_known:
            r.covered(src_known)
        else:
            r.fail("absorbed", "parse(original): %s" % ab[:3])
    want_names = [p["name"].lstrip("*") for p in d["params"]]
    if [n for n, _ in names_types(ir0)] != want_names:
        if src_known:
            r.covered(src_known)
        else:
            r.fail("param-names", "parse(original) gives %s, text documents %s" % ([n for n, _ in names_types(ir0)], want_names))
    # pipeline B: the docstring inside a def at the generated indentation, through function.parse (carries original_doc_str)
    # plain = no original_doc_str: the header comes from ir["doc"]; also emitted at indent levels 1 and 2
    variants = [("direct", None), ("plain", 0), ("plain", 1), ("plain", 2)]
    if d["indent"] in (4, 8) and not d["lead_nl"]:
        variants.append(("function", d["indent"]))
    for target in ("rest", "google", "numpydoc"):
        for how, ind in variants:
            tag = "[%s->%s,%s%s]" % (src_style, target, how, "" if ind is None else "@%d" % ind)
            try:
                with core.quiet():
                    if how == "direct":
                        ir = deepcopy(ir0)
                        ir["_internal"] = {"original_doc_str": orig}
                        out = cdd.docstring.emit.docstring(ir, docstring_format=target, indent_level=0)
                    elif how == "plain":
                        ir = deepcopy(ir0)
                        ir.pop("_internal", None)
                        out = cdd.docstring.emit.docstring(ir, docstring_format=target, indent_level=ind)
                    else:
                        pad = " " * (ind - 4)
                        body = '%sdef f(%s):\n%s    """%s%s    """\n%s    return 1\n' % (pad, ", ".join(want_names), pad, orig if orig.startswith("\n") else "\n" + orig, "" if orig.endswith("\n") else "\n", pad)
                        src = ("class K:\n" + body) if ind == 8 else body
                        node = ast.parse(src).body[0]
                        if ind == 8:
                            node = node.body[0]
                        ir = cdd.function.parse.function(node)
                        out = cdd.docstring.emit.docstring(ir, docstring_format=target, indent_level=ind // 4)
            except Exception as e:
                if rest_footer:
                    r.covered("P20")  # footer already absorbed into the return/last type of the ReST original
                elif src_known:
                    r.covered(src_known)
                else:
                    r.fail("convert-raises", "%s %s" % (tag, core.exc_bucket(e)))
                continue
            to_rest_footer = rest_footer or (target == "rest" and d["footer"] and is_open("P20"))
            to_numpy_footer = numpy_footer or (d["footer"] and is_open("P49") and (target == "numpydoc" or (d["rtyp"] and (target == "google" or src_style == "google"))))
            # clauses that need the *converted* text to be re-parsed are relaxed where that re-parse is known broken:
            #  P25 converted to numpydoc at indent > 0;  P51 numpydoc original whose misplaced "footer" (tail of the last
            #  description) is appended again after the converted section
            if how == "plain" and ind and not d["header_lines"] and target != "rest" and is_open("P42"):
                p42 = "P42"  # empty header at indent > 0: a blank line is inserted after `Args:` / `Parameters`
            else:
                p42 = None
            # P22: a return entry WITHOUT parameters emitted as google / numpydoc glues the section head to the type line
            p22 = "P22" if (target != "rest" and not d["params"] and d["rtyp"] and is_open("P22")) else None
            reparse_known = p22 or p42 or (src_known if src_known in ("P48", "P50", "P25") else None) or ("P25" if (target == "numpydoc" and (how == "function" or d["indent"] > 0 or (how == "plain" and ind)) and is_open("P25")) else ("P51" if (src_style == "numpydoc" and is_open("P51")) else None))
            out_lines = [l.strip() for l in out.splitlines()]
            pos = 0
            for hl in d["header_lines"]:
                try:
                    pos = out_lines.index(hl.strip(), pos) + 1
                except ValueError:
                    r.fail("header-line-lost", "%s header line %r is not (in order) in the converted docstring %r" % (tag, hl, out[:300]))
                    break
            try:
                with core.quiet():
                    ir2 = cdd.docstring.parse.docstring(out)
            except Exception as e:
                if to_rest_footer or to_numpy_footer or reparse_known:
                    r.covered("P20" if to_rest_footer else "P49" if to_numpy_footer else reparse_known)
                else:
                    r.fail("reparse-raises", "%s %s" % (tag, core.exc_bucket(e)))
                continue
            ab = marker_absorbed(ir2)
            if ab:
                if to_rest_footer or to_numpy_footer or reparse_known:
                    r.covered("P20" if to_rest_footer else "P49" if to_numpy_footer else reparse_known)
                else:
                    r.fail("absorbed", "%s parse(converted): %s in %r" % (tag, ab[:3], out[:300]))
            a, b = names_types(ir0), names_types(ir2)
            if [n for n, _ in a] != [n for n, _ in b] and (to_rest_footer or to_numpy_footer):
                r.covered("P20" if to_rest_footer else "P49")  # footer lines re-parsed as extra trailing parameters
            elif [n for n, _ in a] != [n for n, _ in b] and reparse_known:
                r.covered(reparse_known)
            elif [n for n, _ in a] != [n for n, _ in b]:
                r.fail("names-changed", "%s %s -> %s" % (tag, [n for n, _ in a], [n for n, _ in b]))


def oracle(d):
    r = Result()
    which = d.get("only")
    if p78(d):
        r.covered("P78")  # the whole case: the misplaced section start corrupts split and conversion alike
    else:
        if which in (None, "split"):
            check_split(r, d)
        if which in (None, "convert"):
            check_convert(r, d)
    r.label("style:" + d["style"], "indent=%d" % d["indent"], "header-lines=%d" % min(len(d["header_lines"]), 4))
    if d["footer"]:
        r.label("footer")
    if d["lead_nl"]:
        r.label("leading-newline")
    if not d["params"]:
        r.label("returns-only-section")
    if d.get("mention"):
        r.label("header-mentions-section-keyword")
    r.nontrivial = len(d["header_lines"]) >= 2 and (d["footer"] or d["indent"] > 0)
    return r


def layer_main(ctx):
    ctx.run_given("docstrings", strategy(ctx), oracle, ctx.cfg["n"])


LAYERS = [("docstrings", layer_main)]


def replay(case):
    return oracle(case)
