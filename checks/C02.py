"""C02 - class / pydantic / function / argparse emit -> text -> parse round-trip (DESIGN 4/C02)."""
import itertools

from hypothesis import strategies as st

from vlib import core, gen_ir, hops
from vlib.core import Result, is_open
from vlib.gen_ir import NoneStr
from vlib.norm import ABSENT, default_view, is_optional, literal_members, normdoc

ID = "C02"
RULE = (
    "a case is one generated signature-legal interface pushed through every cell of format{class, pydantic, "
    "function x type_annotations{T,F} x kw-only{T,F} (+ self/cls method variants), argparse} x docstring_format{rest,"
    "google,numpydoc} x emit_default_doc{T,F}; the parser always reads the re-read source text, which is also "
    "compile()d. Non-trivial = >=2 params, >=1 default and >=1 non-scalar type. Distinct = SHA-1 of the interface."
)
TIERS = {"quick": {"shards": 8, "n": 280, "budget_s": 200}, "thorough": {"shards": 16, "n": 6000, "budget_s": 2700}}
FLOOR = {"quick": 150, "thorough": 10000}
REQUIRED_LABELS = {"quick": ["undocumented-suffix", "d:neg-int", "d:bool", "d:str", "d:None", "kind:literal", "kind:optint"], "thorough": []}
ASSUMPTIONS = ["descriptions avoid the type-hint trigger words; string defaults are plain (non-empty, dot-free)"]

FORMATS = [
    ("class", {}),
    ("pydantic", {}),
    ("function", {"type_annotations": True, "emit_as_kwonlyargs": False}),
    ("function", {"type_annotations": False, "emit_as_kwonlyargs": False}),
    ("function", {"type_annotations": True, "emit_as_kwonlyargs": True}),
    ("function", {"type_annotations": False, "emit_as_kwonlyargs": True}),
    ("function", {"type_annotations": True, "emit_as_kwonlyargs": False, "function_type": "self"}),
    ("function", {"type_annotations": False, "emit_as_kwonlyargs": False, "function_type": "cls"}),
    ("argparse", {}),
]
CELLS = [(i, s, e) for i in range(len(FORMATS)) for s in ("rest", "google", "numpydoc") for e in (True, False)]
SCALARS = {"int", "float", "str", "bool", "complex"}


def init_worker(ctx):
    hops.load()


def _no_code_defaults(case):
    """P43 (code-quoted default in a signature format) is excluded by construction and counted: the strict domain of
    C02 is literal / None defaults; the dotted *types* stay in."""
    n = 0
    seen_default = False
    for (_n, p), k in zip(case["params"], case["kinds"]):
        if k == "dotted" and "default" in p and not seen_default_later(case, _n):
            del p["default"]
            n += 1
    case["excluded_code_defaults"] = n
    return case


def seen_default_later(case, name):
    """dropping the default must keep the signature legal: only drop it when no *earlier* parameter has a default."""
    for n, p in case["params"]:
        if n == name:
            return False
        if "default" in p:
            return True
    return False


@st.composite
def undocumented_suffix(draw):
    """the last 2..3 parameters carry no description at all (type and default only): after a ReST/annotated function
    hop they exist only in the signature and are merged back in by position"""
    case = draw(gen_ir.interface("signature", suffix=True, min_params=3, max_params=6))
    k = draw(st.integers(2, min(3, len(case["params"]) - 1)))
    for _n, p in case["params"][-k:]:
        p.pop("doc", None)
    case["undocumented_suffix"] = k
    return case


@st.composite
def int_for_float(draw):
    """a `float` (or `complex`) parameter whose default is written as an INTEGER literal (`clip: float = -1`,
    `scale: float = 2`) - ordinary Python, and a different literal type than the declared one"""
    case = draw(gen_ir.interface("signature", suffix=True, min_params=1, max_params=4))
    i = draw(st.integers(0, len(case["params"]) - 1))
    case["params"][i][1].update({"typ": draw(st.sampled_from(["float", "float", "complex"])), "default": draw(st.sampled_from([-1, -7, -100, 2, 0, 1]))})
    for _n, q in case["params"][i + 1:]:
        if "default" not in q:
            q.update({"typ": "int", "default": 3})  # keep the defaults a suffix
    case["kinds"] = ["float" if j == i else ("int" if "default" in q and q.get("typ") == "int" and k not in ("int",) and q["default"] == 3 else k) for j, ((_n, q), k) in enumerate(zip(case["params"], case["kinds"]))]
    case["int_for_float"] = case["params"][i][0]
    return case


def p81(case, n, fmt, edd):
    """P81: a float / complex parameter whose default is an INTEGER literal - the literal's own type competes with the
    declared one wherever the default also travels as prose or through argparse's `type=`.  Strict where it travels in
    the signature only: the function format without the `Defaults to` sentence"""
    return case.get("int_for_float") == n and is_open("P81") and not (fmt == "function" and not edd)


def strategy(ctx):
    return st.one_of(
        undocumented_suffix(),
        int_for_float(),
        gen_ir.wrap_boundary_interface(),
        gen_ir.interface("signature", suffix=True),
        gen_ir.interface("signature", suffix=True, min_params=2, max_params=5),
        gen_ir.interface("signature", suffix=True, doc=gen_ir.mixed_descr, name_strategy=gen_ir.rich_names),
        gen_ir.interface("signature", suffix=True, max_params=3, doc=st.one_of(gen_ir.descr, gen_ir.long_token_descr())),
    ).map(_no_code_defaults).filter(
        lambda c: not any(k == "dotted" and "default" in p for (_n, p), k in zip(c["params"], c["kinds"]))
    )


def _argparse_class(p):
    """which of P13's input classes a parameter is in (decided on the input alone)"""
    typ = p["typ"]
    inner = typ[len("Optional[") : -1] if is_optional(typ) else typ
    out = set()
    if "default" not in p and not is_optional(typ):
        out.add("P13-zero")  # required param without default -> zero value of its type
    ms = literal_members(typ)
    if ms is not None and len(ms) == 1:
        out.add("P13-lit1")  # single-member Literal -> str
    if inner == "bool" and "default" not in p:
        out.add("P13-bool")  # bool without default -> Optional[bool]
    if ms is None and inner not in SCALARS and not inner.startswith("List["):
        out.add("P13-fallback")  # Union / dotted / anything else -> str
    if inner.startswith("List["):
        out.add("P13-list")
    return out


def check_cell(r, case, cell):
    fi, style, edd = cell
    fmt, kw = FORMATS[fi]
    tag = "[%s%s,%s,e%d]" % (fmt, "".join("," + k[:4] + "=" + str(v)[:4] for k, v in kw.items()), style, edd)
    params = case["params"]
    src = None
    try:
        with core.quiet():
            src, _node = hops.emit_src(fmt, gen_ir.to_ir(case), docstring_format=style, emit_default_doc=edd, **kw)
    except Exception as e:
        r.fail("emit-raises", "%s %s" % (tag, core.exc_bucket(e)))
        return
    try:
        compile(src, "<emitted>", "exec")
    except SyntaxError as e:
        r.fail("compile", "%s %s in %r" % (tag, e, src[:300]))
        return
    try:
        with core.quiet():
            back = hops.fix(hops.parse_src(fmt, src))
    except Exception as e:
        if case.get("int_for_float") and p81(case, case["int_for_float"], fmt, edd):
            r.covered("P81")
            return
        r.fail("parse-raises", "%s %s on %r" % (tag, core.exc_bucket(e), src[:400]))
        return
    want_names = [n for n, _p in params]
    if list(back["params"]) != want_names:
        r.fail("names", "%s want %s got %s" % (tag, want_names, list(back["params"])))
        return
    # classes in which the *embedded docstring* is not recognised by the parser (everything that comes from the
    # code - names, order, annotations, defaults - stays strict):
    #  P25: numpydoc section tokens are not matched once the docstring is indented
    #  P42: with an empty header the indenting step puts a blank line after the first line (`Args:` / `Parameters`)
    doc_lost = None
    if fmt != "argparse":
        if style == "numpydoc" and is_open("P25"):
            doc_lost = "P25"
        elif style == "google" and not case["doc"].strip() and is_open("P42"):
            doc_lost = "P42"
    indented_numpydoc = doc_lost is not None
    types_from_doc_only = fmt == "function" and not kw.get("type_annotations", True)
    for n, p in params:
        b = back["params"][n]
        ac = _argparse_class(p) if fmt == "argparse" else set()
        extra = set(b) - {"typ", "doc", "default", "x_typ"}
        if extra:
            r.fail("keys", "%s %s has keys %s" % (tag, n, sorted(extra)))
        # ---- type
        gt, wt = b.get("typ"), p["typ"]
        if gt != wt:
            ms_w, ms_g = literal_members(wt), literal_members(gt)
            if fmt == "argparse" and is_open("P13") and (ac & {"P13-lit1", "P13-bool", "P13-fallback", "P13-list", "P13-zero"}):
                r.covered("P13")
            elif types_from_doc_only and indented_numpydoc:
                r.covered(doc_lost)  # the type lives only in the (unrecognised) docstring
            elif p81(case, n, fmt, edd):
                r.covered("P81")
            else:
                r.fail("typ", "%s %s: %r -> %r" % (tag, n, wt, gt))
        # ---- default (value and python type)
        wd = default_view(p, absent_is_none=(fmt == "function"))
        gd = default_view(b, typ=wt, absent_is_none=(fmt == "function"))
        if wd != gd:
            if fmt == "argparse" and is_open("P13") and "default" not in p and (ac & {"P13-zero", "P13-bool", "P13-list"}):
                r.covered("P13")
            elif style == "rest" and edd and fmt != "argparse" and isinstance(p.get("default"), str) and " " in p["default"] and len(p.get("doc", "")) + len(repr(p["default"])) > 70 and is_open("P63"):
                r.covered("P63")  # multi-word string default wrapped inside its quotes (embedded ReST docstring)
            elif style == "google" and fmt == "function" and not p.get("doc") and "default" in p and any("default" in q for _m, q in params[: [x for x, _ in params].index(n)]) and is_open("P61"):
                r.covered("P61")  # forced zero-value default of an empty google entry overrides the signature's default
            elif p81(case, n, fmt, edd):
                r.covered("P81")
            else:
                r.fail("default", "%s %s (%s): %r -> %r" % (tag, n, wt, wd, gd))
        # ---- description
        if normdoc(b.get("doc")) != normdoc(p.get("doc")):
            if doc_lost:
                r.covered(doc_lost)
            else:
                r.fail("doc", "%s %s: %r -> %r" % (tag, n, p.get("doc"), b.get("doc")))
    # ---- header and return entry
    if " ".join((back.get("doc") or "").split()) != " ".join(case["doc"].split()):
        if doc_lost:
            r.covered(doc_lost)
        elif style == "google" and fmt != "argparse" and case["returns"] is not None and is_open("P41"):
            r.covered("P41")  # the unrecognised return section is folded into the header
        elif style == "google" and fmt != "argparse" and params and not params[-1][1].get("doc") and is_open("P60"):
            r.covered("P60")  # a last google entry with an empty description is read back as header text
        else:
            r.fail("header", "%s %r -> %r" % (tag, case["doc"], back.get("doc")))
    wr = case["returns"]
    gr = (back.get("returns") or {}).get("return_type")
    if fmt == "argparse" and wr is not None and "default" not in wr:
        wr = None  # documented normalisation: argparse keeps a return entry only when it has a default
    if (wr is None) != (gr is None):
        if doc_lost:
            r.covered(doc_lost)
        elif style == "google" and fmt in ("class", "pydantic", "function") and is_open("P41"):
            r.covered("P41")
        else:
            r.fail("returns-presence", "%s want %r got %r" % (tag, wr, gr))
    elif wr is not None:
        if wr.get("typ") != gr.get("typ"):
            if doc_lost or (style == "google" and fmt != "argparse" and is_open("P41")):
                r.covered(doc_lost or "P41")
            else:
                r.fail("returns-typ", "%s %r -> %r" % (tag, wr.get("typ"), gr.get("typ")))
        if normdoc(wr.get("doc")) != normdoc(gr.get("doc")):
            if doc_lost or (style == "google" and fmt != "argparse" and is_open("P41")):
                r.covered(doc_lost or "P41")
            else:
                r.fail("returns-doc", "%s %r -> %r" % (tag, wr.get("doc"), gr.get("doc")))
        if default_view(wr) != default_view(gr, typ=wr.get("typ")):
            if style != "rest" and is_open("P21") and any("default" in p for _n, p in params):
                r.covered("P21")
            else:
                r.fail("returns-default", "%s %r -> %r" % (tag, wr, gr))


def oracle(case):
    r = Result()
    for cell in case.get("cells") or CELLS:
        check_cell(r, case, tuple(cell))
    r.label(*gen_ir.labels_of(case))
    if case.get("undocumented_suffix"):
        r.label("undocumented-suffix")
    if case.get("excluded_code_defaults"):
        r.label("excluded-by-construction:P43-code-default")
    ps = [p for _n, p in case["params"]]
    r.nontrivial = len(ps) >= 2 and any("default" in p for p in ps) and any(p["typ"] not in SCALARS for p in ps)
    return r


def layer_main(ctx):
    ctx.run_given("roundtrip", strategy(ctx), oracle, ctx.cfg["n"])


LAYERS = [("roundtrip", layer_main)]


def replay(case):
    return oracle(case)
