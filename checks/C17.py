"""C17 - analysing source never executes it or touches anything but the output (DESIGN 4/C17)."""
import ast
import builtins
import dis
import json
import os
import shutil
import sys
import tempfile

from hypothesis import strategies as st

from vlib import core, gen_ir, hops, monitor
from vlib.core import Result

ID = "C17"
RULE = (
    "a case is an adversarial input: a payload (call of a sentinel builtin, __import__ of a sentinel module that "
    "exists on sys.path, dunder attribute chain, open(<sentinel file>,'w'), os.system / subprocess / socket expression, "
    "or the same spelled only with the characters the doc-type filter lets through) placed in a default, a type "
    "string, a description, a decorator, a class body or a module-level statement of a class / function / argparse / "
    "SQLAlchemy source, a docstring or a JSON-schema, run through every parser, the emitters on the parsed result, "
    "doctrans, sync, sync_properties (without --input-eval) and gen from a file path, under a sys.addaudithook "
    "monitor. Positive controls (--input-eval, gen --prepend) must be SEEN executing. Non-trivial = payload in a "
    "position the code inspects (default, type, first sentence of a description). Distinct = SHA-1 of the case."
)
TIERS = {"quick": {"shards": 8, "n": 600, "budget_s": 220}, "thorough": {"shards": 16, "n": 6000, "budget_s": 2700}}
FLOOR = {"quick": 300, "thorough": 10000}
REQUIRED_LABELS = {"quick": ["pos:default", "pos:type", "pos:doc", "pos:decorator", "pos:module-level", "api:doctrans", "api:sync", "api:gen", "api:parsers", "api:routes", "paths:relative+cwd-on-sys.path", "control:input-eval-seen", "control:prepend-seen"], "thorough": []}
ASSUMPTIONS = [
    "the monitor sees Python-level audit events (exec, import, open, os.*, subprocess.*, socket.*, ctypes.*); code executed without raising an audit event would be invisible (none known in CPython 3.12 for these paths)",
    "code compiled from a STRING and executed is acceptable only when it is a pure expression lookup: no CALL / IMPORT / STORE / MAKE_FUNCTION instruction and no dunder name (the docstring parser's type-name probe)",
]
SENT_MODS = ["vp_sentinel_mod_0", "vp_sentinel_mod_1"]
FIRED = []
_DIR = {}


def _pwn(*a, **k):
    FIRED.append(("__vp_pwn__", a))
    return 1


def init_worker(ctx):
    global cdd
    cdd = hops.load()["cdd"]
    import cdd.compound.doctrans
    import cdd.compound.gen
    import cdd.compound.sync_properties

    builtins.__vp_pwn__ = _pwn
    d = tempfile.mkdtemp(prefix="c17mods_", dir="/dev/shm" if os.path.isdir("/dev/shm") else None)
    _DIR["mods"] = d
    for m in SENT_MODS:
        with open(os.path.join(d, m + ".py"), "w") as f:
            f.write("import builtins\nbuiltins.__vp_sentinel_imported__ = getattr(builtins, '__vp_sentinel_imported__', []) + [%r]\nx = 1\n\n\nclass K(object):\n    pass\n" % m)
    sys.path.append(d)
    monitor.install()
    import atexit

    atexit.register(lambda: shutil.rmtree(d, ignore_errors=True))
    _warm_up()


def _warm_up():
    """trigger cdd's lazy imports (black, yaml, ...) once so that they are not attributed to a case"""
    d = tempfile.mkdtemp(prefix="c17w_", dir="/dev/shm" if os.path.isdir("/dev/shm") else None)
    try:
        case = {"payload": "1", "pos": "default", "sentfile": os.path.join(d, "s")}
        for api in APIS:
            try:
                with core.quiet():
                    APIS[api](case, d)
            except BaseException:
                pass
    finally:
        shutil.rmtree(d, ignore_errors=True)


PAYLOADS = [
    "__vp_pwn__()",
    "__vp_pwn__('x', 1)",
    "__import__('vp_sentinel_mod_0')",
    "__import__('vp_sentinel_mod_1').x",
    "().__class__.__mro__[-1].__subclasses__()",
    "open({sentfile!r}, 'w').write('x')",
    "__import__('os').system('touch {sentfile}')",
    "__import__('subprocess').call(['touch', {sentfile!r}])",
    "__import__('socket').socket()",
    "[__vp_pwn__() for _ in (1,)]",
    "(lambda: __vp_pwn__())()",
    "eval('__vp_pwn__()')",
    "exec('import vp_sentinel_mod_0')",
]
# payloads spelled only with the characters the doc-type filter lets through (letters, digits, quotes, / | . `)
FILTER_SAFE = ["__vp_pwn__", "vp_sentinel_mod_0.x", "`__vp_pwn__`", "a.__class__.__mro__", "sys.modules", "os.system", "__import__", "builtins.__vp_pwn__", "cdd.__main__.main", "Optional/__vp_pwn__", "List|__vp_pwn__"]
POSITIONS = ["default", "type", "doc", "decorator", "class-body", "module-level", "doc-type", "doc-default"]


STATEMENT_PAYLOADS = ["import vp_sentinel_mod_0", "from vp_sentinel_mod_1 import x", "import vp_sentinel_mod_0 as np", "exec('import vp_sentinel_mod_0')", "__vp_pwn__()", "if True:\n    import vp_sentinel_mod_1", "try:\n    import vp_sentinel_mod_0\nexcept ImportError:\n    pass"]
BACKTICK_TEMPLATES = ["Either `{p}` or `None`", "`{p}` or `x`", "one of `{p}`, `y`", "list of `{p}`", "a `{p}` of things", "`{p}`"]


@st.composite
def case_strategy(draw):
    pos = draw(st.sampled_from(POSITIONS))
    if pos == "module-level":
        payload = draw(st.sampled_from(STATEMENT_PAYLOADS))
    elif pos in ("doc", "doc-type") and draw(st.booleans()):
        payload = draw(st.sampled_from(FILTER_SAFE))
    elif pos == "doc" and draw(st.booleans()):
        payload = draw(st.sampled_from(BACKTICK_TEMPLATES)).format(p=draw(st.sampled_from(PAYLOADS[:5] + ["__import__('pathlib').Path({sentfile!r}).touch()"])))
    else:
        payload = draw(st.sampled_from(PAYLOADS))
    trig = draw(st.sampled_from(["", "dictionary of ", "list of ", "whether ", "number ", "one of ", "string or ", "Optional "]))
    if pos in ("doc-default", "default") and draw(st.booleans()):
        # the payload as an operand: the characters `* ^ & | $ @ !` route a prose default through the "this is code,
        # not a literal" branch of the default extraction
        payload = draw(st.sampled_from(["{p} * 1", "1 | {p}", "{p} ^ 1", "1 & {p}", "1 @ {p}", "60 * 60 * {p}", "not {p} != 1", "{p} ** 2"])).replace("{p}", payload)
    return {"payload": payload, "pos": pos, "trigger": trig, "doctyp": draw(st.sampled_from(["int", "int", "float", "bool", "complex", "str", "Optional[int]"])), "style": draw(st.sampled_from(["rest", "google", "numpydoc"])), "api": draw(st.sampled_from(sorted(APIS))), "rel": draw(st.booleans())}


def strategy(ctx):
    return case_strategy()


# ------------------------------------------------------------------------------------------ adversarial sources
def _p(case):
    return case["payload"].format(sentfile=case["sentfile"])


def doc_lines(case, names, kind="param"):
    p, pos, trig = _p(case), case["pos"], case.get("trigger", "")
    style = case.get("style", "rest")
    desc = "the value"
    if pos == "doc":
        desc = "%s%s. More text" % (trig, p)
    if pos == "doc-default":
        desc = "the value. Defaults to %s" % p
    typ = case.get("doctyp", "int")
    if pos == "doc-type":
        typ = p
    L = ["Summary line.", ""]
    if style == "rest":
        for n in names:
            L += [":%s %s: %s" % (kind, n, desc), ":type %s: ```%s```" % (n, typ)]
    elif style == "google":
        L.append("Args:")
        for n in names:
            L.append("  %s (%s): %s" % (n, typ, desc))
    else:
        L += ["Parameters", "----------"]
        for n in names:
            L += ["%s : %s" % (n, typ), "    %s" % desc]
    return L


def function_src(case, name="f"):
    p, pos = _p(case), case["pos"]
    default = p if pos == "default" else "1"
    ann = p if pos == "type" else "int"
    deco = ["@%s" % p] if pos == "decorator" and not p.startswith(("[", "(", "eval", "exec", "open")) else []
    L = (["import os", p, ""] if pos == "module-level" else ["import os", ""]) + deco
    L.append("def %s(a: %s = %s, b=2):" % (name, ann, default))
    L.append('    """')
    L += ["    " + l if l else "" for l in doc_lines(case, ["a", "b"])]
    L.append('    """')
    L.append("    return a")
    return "\n".join(L) + "\n"


def class_src(case, name="ConfigClass"):
    p, pos = _p(case), case["pos"]
    default = p if pos == "default" else "5"
    ann = p if pos == "type" else "int"
    L = (["import os", p, ""] if pos == "module-level" else ["import os", ""])
    if pos == "decorator" and not p.startswith(("[", "(", "eval", "exec", "open")):
        L.append("@%s" % p)
    L.append("class %s(object):" % name)
    L.append('    """')
    L += ["    " + l if l else "" for l in doc_lines(case, ["a"], kind="cvar")]
    L.append('    """')
    if pos == "class-body":
        L.append("    %s" % p)
    L.append("    a: %s = %s" % (ann, default))
    return "\n".join(L) + "\n"


def argparse_src(case):
    p, pos = _p(case), case["pos"]
    default = p if pos == "default" else "1"
    typ = p if pos == "type" else "int"
    helps = ("%s%s" % (case.get("trigger", ""), p)) if pos in ("doc", "doc-default", "doc-type") else "the value"
    L = (["import os", p, ""] if pos == "module-level" else ["import os", ""])
    L += [
        "def set_cli_args(argument_parser):",
        '    """',
        "    Set CLI arguments",
        "",
        "    :param argument_parser: argument parser",
        "    :type argument_parser: ```ArgumentParser```",
        "",
        "    :return: argument_parser",
        "    :rtype: ```ArgumentParser```",
        '    """',
        "    argument_parser.description = 'Summary line.'",
        "    argument_parser.add_argument('--a', type=%s, help=%r, default=%s)" % (typ, helps, default),
        "    return argument_parser",
    ]
    return "\n".join(L) + "\n"


def sqlalchemy_src(case):
    p, pos = _p(case), case["pos"]
    default = p if pos == "default" else "5"
    doc = ("%s%s" % (case.get("trigger", ""), p)) if pos in ("doc", "doc-default", "doc-type") else "the value"
    L = (["import os", p, ""] if pos == "module-level" else [])
    L += ["class Config(Base):", '    """', "    Summary line.", '    """', '    __tablename__ = "config_tbl"']
    if pos == "class-body":
        L.append("    %s" % p)
    L.append("    a = Column(%s, doc=%r, default=%s, primary_key=True)" % (p if pos == "type" else "Integer", doc, default))
    return "\n".join(L) + "\n"


# ------------------------------------------------------------------------------------------------ APIs under watch
def api_parsers(case, d):
    """every parser, then the emitters on what it returned"""
    out = []
    f = ast.parse(function_src(case))
    fn = next(n for n in f.body if isinstance(n, ast.FunctionDef))
    c = next(n for n in ast.parse(class_src(case)).body if isinstance(n, ast.ClassDef))
    a = next(n for n in ast.parse(argparse_src(case)).body if isinstance(n, ast.FunctionDef))
    s = next(n for n in ast.parse(sqlalchemy_src(case)).body if isinstance(n, ast.ClassDef))
    for name, call in (
        ("function", lambda: cdd.function.parse.function(fn)),
        ("class", lambda: cdd.class_.parse.class_(c)),
        ("pydantic", lambda: cdd.pydantic.parse.pydantic(c)),
        ("argparse", lambda: cdd.argparse_function.parse.argparse_ast(a)),
        ("sqlalchemy", lambda: cdd.sqlalchemy.parse.sqlalchemy(s)),
        ("sqlalchemy_hybrid", lambda: cdd.sqlalchemy.parse.sqlalchemy_hybrid(s)),
        ("docstring", lambda: cdd.docstring.parse.docstring("\n".join(doc_lines(case, ["a", "b"])), infer_type=True)),
        ("json_schema", lambda: cdd.json_schema.parse.json_schema({"$id": "https://x/y.schema.json", "type": "object", "description": "\n".join(doc_lines(case, ["a"])), "properties": {"a": {"type": "string", "description": "%s%s" % (case.get("trigger", ""), _p(case)), "default": _p(case)}}, "required": ["a"]})),
    ):
        try:
            ir = call()
        except Exception:
            continue
        out.append(name)
        ir.setdefault("returns", None)
        ir.setdefault("doc", "")
        for emit in (
            lambda x: cdd.class_.emit.class_(x, class_name="K"),
            lambda x: cdd.function.emit.function(x, function_name="g", function_type="static"),
            lambda x: cdd.argparse_function.emit.argparse_function(x),
            lambda x: cdd.docstring.emit.docstring(x, docstring_format=case.get("style", "rest")),
            lambda x: cdd.json_schema.emit.json_schema(x),
            lambda x: cdd.sqlalchemy.emit.sqlalchemy(x, class_name="K", table_name="k_tbl"),
        ):
            try:
                from copy import deepcopy

                node = emit(deepcopy(ir))
                if isinstance(node, ast.AST):
                    hops.load()["to_code"](node)
            except Exception:
                pass
    return set()


def J(case, d, name):
    """file name as handed to cdd: absolute, or - `rel` cases - bare and relative to the current directory, which is
    then also on sys.path (what `cd project && python -m cdd ...` gives): a file named on the command line must be read
    as data under that spelling too, never imported"""
    return name if case.get("rel") else os.path.join(d, name)


def api_doctrans(case, d):
    p = J(case, d, "m.py")
    with open(p, "w") as f:
        f.write(function_src(case) + "\n\n" + class_src(case).replace("import os\n", ""))
    try:
        cdd.compound.doctrans.doctrans(filename=p, docstring_format={"rest": "google", "google": "numpydoc", "numpydoc": "rest"}[case.get("style", "rest")], type_annotations=case["pos"] != "type", no_word_wrap=None)
    except Exception:
        pass
    return {p}


def api_sync(case, d):
    c, f, a = (J(case, d, x) for x in ("c.py", "f.py", "a.py"))
    open(c, "w").write(class_src(case))
    open(f, "w").write(function_src(case, "method_name"))
    open(a, "w").write(argparse_src(case))
    for truth in ("class", "function", "argparse_function"):
        try:
            cdd.__main__.main(["sync", "--class", c, "--class-name", "ConfigClass", "--function", f, "--function-name", "method_name", "--argparse-function", a, "--argparse-function-name", "set_cli_args", "--truth", truth])
        except BaseException as e:
            if isinstance(e, (core.CaseTimeout, KeyboardInterrupt)):
                raise
    return {c, f, a}


def api_gen(case, d):
    outs = set()
    for i, (src, parse) in enumerate(((class_src(case), "class"), (function_src(case), "function"), (argparse_src(case), "argparse"), (class_src(case), "infer"))):
        ip = J(case, d, "in%d.py" % i)
        open(ip, "w").write(src)
        for emit in ("argparse", "class", "function", "json_schema"):
            op = J(case, d, "out%d_%s.%s" % (i, emit, "json" if emit == "json_schema" else "py"))
            outs.add(op)
            try:
                cdd.__main__.main(["gen", "--name-tpl", "{name}X", "--input-mapping", ip, "--parse", parse, "--emit", emit, "-o", op, "--emit-and-infer-imports"])
            except BaseException as e:
                if isinstance(e, (core.CaseTimeout, KeyboardInterrupt)):
                    raise
        # --imports-from-file names a FILE whose import statements are copied: it is data as well
        op = J(case, d, "outimp%d.py" % i)
        outs.add(op)
        try:
            cdd.__main__.main(["gen", "--name-tpl", "{name}X", "--input-mapping", ip, "--parse", parse, "--emit", "class", "-o", op, "--imports-from-file", ip])
        except BaseException as e:
            if isinstance(e, (core.CaseTimeout, KeyboardInterrupt)):
                raise
    return outs


def api_sync_properties(case, d):
    i, o = J(case, d, "i.py"), J(case, d, "o.py")
    open(i, "w").write(class_src(case))
    open(o, "w").write("class Target(object):\n    a: str = 'x'\n\ndef g(a=1, z=2):\n    return a\n")
    for op in ("Target.a", "g.a"):
        try:
            cdd.compound.sync_properties.sync_properties(input_eval=False, input_filename=i, input_params=["ConfigClass.a"], output_filename=o, output_params=[op], output_param_wrap=None)
        except BaseException as e:
            if isinstance(e, (core.CaseTimeout, KeyboardInterrupt)):
                raise
    # input names the static lookup cannot resolve (bound by tuple unpacking, a chained or augmented assignment, under
    # `if` / `try`, as an import alias, or not at all): without --input-eval the answer must be a refusal, never a look at
    # the module's run-time values
    i2 = J(case, d, "i2.py")
    open(i2, "w").write(
        class_src(case)
        + "\nMODES, LEVELS = ('a', 'b'), (1, 2)\nM = N = 3\nif MODES:\n    UNDER_IF = ('x', 'y')\ntry:\n    UNDER_TRY = ('p',)\nexcept Exception:\n    UNDER_TRY = ()\n"
        + "COUNT = 0\nCOUNT += 1\nimport os.path as ALIAS\nfor LOOPVAR in (1, 2):\n    pass\n"
    )
    for ip in ("MODES", "N", "UNDER_IF", "UNDER_TRY", "COUNT", "ALIAS", "LOOPVAR", "nowhere"):
        for wrap in (None, "Optional[{output_param}]"):
            try:
                cdd.compound.sync_properties.sync_properties(input_eval=False, input_filename=i2, input_params=[ip], output_filename=o, output_params=["Target.a"], output_param_wrap=wrap)
            except BaseException as e:
                if isinstance(e, (core.CaseTimeout, KeyboardInterrupt)):
                    raise
    return {o}


YAML_TAGS = [
    "!!python/object/apply:os.system ['touch {sentfile}']",
    "!!python/object/apply:builtins.__vp_pwn__ []",
    "!!python/name:vp_sentinel_mod_0.x",
    "!!python/module:vp_sentinel_mod_1",
    "!!python/object/apply:os.mkdir ['{sentfile}']",
    "!!python/object/new:vp_sentinel_mod_0.K []",
    "!!python/object/apply:subprocess.call [['touch', '{sentfile}']]",
]


def api_routes(case, d):
    """route docstrings carry a ```yml block that the OpenAPI parser loads: tagged YAML must stay inert"""
    import hashlib

    tag = YAML_TAGS[int(hashlib.sha1(case["payload"].encode()).hexdigest(), 16) % len(YAML_TAGS)].format(sentfile=case["sentfile"])
    route = (
        '@rest_api.get("/api/config/:key")\n'
        "def read(key):\n"
        '    """\n'
        "    Find one `Config` or error\n\n"
        "    ```yml\n"
        "    responses:\n"
        "      '200':\n"
        "        description: A `Config` object.\n"
        "        x-handler: %s\n"
        "        content:\n"
        "          application/json:\n"
        "            schema:\n"
        "              $ref: ```Config```\n"
        "    x-extra: %s\n"
        "    ```\n\n"
        "    :param key: The primary key of `Config`\n"
        "    :type key: ```str```\n\n"
        "    :return: Found `Config`\n"
        "    :rtype: ```dict```\n"
        '    """\n'
        "    return {}\n"
    ) % (tag, tag)
    model = 'class Config(Base):\n    """\n    The Config.\n    """\n    __tablename__ = "config_tbl"\n    key = Column(String, doc="the key", primary_key=True)\n'
    rp, mp = os.path.join(d, "routes.py"), os.path.join(d, "models.py")
    open(rp, "w").write("from bottle import Bottle\n\nrest_api = Bottle()\n\n\n" + route)
    open(mp, "w").write(model)
    import cdd.compound.openapi.gen_openapi
    import cdd.routes.parse.bottle

    try:
        cdd.routes.parse.bottle.bottle(ast.parse(route).body[0])
    except Exception:
        pass
    try:
        cdd.compound.openapi.gen_openapi.openapi_bulk(app_name="rest_api", model_paths=[mp], routes_paths=[rp])
    except Exception:
        pass
    try:
        cdd.__main__.main(["openapi", "--app-name", "rest_api", "--model-paths", mp, "--routes-paths", rp])
    except BaseException as e:
        if isinstance(e, (core.CaseTimeout, KeyboardInterrupt)):
            raise
    return set()


APIS = {"routes": api_routes, "parsers": api_parsers, "doctrans": api_doctrans, "sync": api_sync, "gen": api_gen, "sync_properties": api_sync_properties}
BAD_OPS = ("CALL", "IMPORT_NAME", "IMPORT_FROM", "STORE_", "MAKE_FUNCTION", "DELETE_", "LOAD_BUILD_CLASS", "SETUP_", "YIELD", "RAISE")


def judge_events(r, events, allowed_writes, root):
    for ev, a, caller in events:
        in_cdd = str(caller).startswith(core.REPO + os.sep)
        if ev.startswith(("subprocess.", "os.system", "os.exec", "os.spawn", "os.posix_spawn", "os.fork", "socket.", "ctypes.", "urllib.", "http.", "ftplib.", "smtplib.", "pty.")):
            r.fail("forbidden-event", "%s %s" % (ev, a[:2]))
        elif ev == "import":
            if a[0].split(".")[0] in SENT_MODS:
                r.fail("sentinel-imported", "import of %s was attempted" % a[0])
        elif ev == "exec":
            fname, _name, co = a
            if isinstance(fname, str) and os.path.isfile(fname) and not fname.startswith(root):
                continue  # a real module of cdd / stdlib / dependency being imported
            names = set()
            try:
                stack = [co]
                while stack:
                    c = stack.pop()
                    names |= set(c.co_names) | {k for k in c.co_consts if isinstance(k, str)}
                    stack += [k for k in c.co_consts if hasattr(k, "co_code")]
            except Exception:
                pass
            if not in_cdd and not any("vp_pwn" in n or "vp_sentinel" in n or "SENTINEL_FILE" in n for n in names):
                r.label("exec:library-internal")  # e.g. namedtuple / dataclass code generated by a library, not by cdd
                continue
            bad = []
            try:
                stack = [co]
                while stack:
                    c = stack.pop()
                    for ins in dis.get_instructions(c):
                        if ins.opname.startswith(BAD_OPS) and ins.opname not in ("CALL_INTRINSIC_1",):
                            bad.append(ins.opname)
                    bad += [n for n in c.co_names if n.startswith("__") and n.endswith("__")]
                    stack += [k for k in c.co_consts if hasattr(k, "co_code")]
            except Exception as e:
                bad.append("uninspectable:%r" % e)
            if bad:
                r.fail("executes-analysed-text", "code compiled from %r was executed and contains %s" % (fname, sorted(set(bad))[:6]))
            else:
                r.label("exec:pure-name-probe")
    for ev, p in monitor.write_events(events, only_from=core.REPO + os.sep):
        ap = os.path.abspath(p)
        if ap in allowed_writes or "__pycache__" in ap:
            continue
        if ap.startswith(("/dev/null", "/proc/")):
            continue
        r.fail("write-outside-output", "%s %s (allowed: %s)" % (ev, p, sorted(os.path.basename(x) for x in allowed_writes)))


def oracle(case):
    r = Result()
    d = tempfile.mkdtemp(prefix="c17_", dir="/dev/shm" if os.path.isdir("/dev/shm") else None)
    case = dict(case, sentfile=os.path.join(d, "SENTINEL_FILE"))
    r.label("pos:" + case["pos"], "api:" + case["api"])
    cwd0 = os.getcwd()
    if case.get("rel"):
        r.label("paths:relative+cwd-on-sys.path")
        os.chdir(d)
        sys.path.insert(0, d)
    try:
        del FIRED[:]
        builtins.__vp_sentinel_imported__ = []
        for m in SENT_MODS:
            sys.modules.pop(m, None)
        before_mods = set(sys.modules)
        with monitor.recording() as events:
            try:
                with core.quiet():
                    allowed = APIS[case["api"]](case, d)
            except BaseException as e:
                if isinstance(e, (core.CaseTimeout, KeyboardInterrupt)):
                    raise
                allowed = {os.path.join(d, x) for x in os.listdir(d)}
                r.exc.append(core.exc_bucket(e))
        events = list(events)
        if FIRED:
            r.fail("sentinel-called", "the sentinel callable from the analysed text was CALLED: %s" % FIRED[:2])
        if builtins.__vp_sentinel_imported__:
            r.fail("sentinel-imported", "sentinel module(s) %s were imported" % builtins.__vp_sentinel_imported__)
        if os.path.exists(case["sentfile"]):
            r.fail("sentinel-file", "the payload's side effect happened: %s exists" % case["sentfile"])
        new = [m for m in set(sys.modules) - before_mods if getattr(sys.modules[m], "__file__", None) and str(sys.modules[m].__file__).startswith((d, _DIR.get("mods", "\0")))]
        if new:
            r.fail("module-from-input-loaded", "%s" % new)
        judge_events(r, events, {os.path.abspath(x) for x in allowed}, d)
    finally:
        if case.get("rel"):
            os.chdir(cwd0)
            while d in sys.path:
                sys.path.remove(d)
        for m in [m for m in list(sys.modules) if str(getattr(sys.modules[m], "__file__", None) or "").startswith(d + os.sep)]:
            sys.modules.pop(m, None)
        shutil.rmtree(d, ignore_errors=True)
    r.nontrivial = case["pos"] in ("default", "type", "doc", "doc-type", "doc-default")
    return r


# ---- positive controls: the two opt-in paths MUST be seen executing (proves the monitor is live)
def layer_controls(ctx):
    ctx.layer = "controls"
    r = Result()
    d = tempfile.mkdtemp(prefix="c17c_", dir="/dev/shm" if os.path.isdir("/dev/shm") else None)
    try:
        i, o = os.path.join(d, "i.py"), os.path.join(d, "o.py")
        open(i, "w").write("OPTS = ('a', 'b')\n__vp_pwn__('control')\n")
        open(o, "w").write("class T(object):\n    a: str = 'x'\n")
        del FIRED[:]
        with monitor.recording() as events:
            try:
                with core.quiet():
                    cdd.compound.sync_properties.sync_properties(input_eval=True, input_filename=i, input_params=["OPTS"], output_filename=o, output_params=["T.a"], output_param_wrap=None)
            except BaseException:
                pass
        seen = bool(FIRED) and any(e[0] == "exec" for e in events)
        r.label("control:input-eval-seen" if seen else "control:input-eval-MISSED")
        if not seen:
            raise core.HarnessError("positive control failed: --input-eval executed code but the monitor did not see it")
        c = os.path.join(d, "c.py")
        open(c, "w").write(class_src({"payload": "1", "pos": "default", "sentfile": "x"}))
        with monitor.recording() as events:
            try:
                with core.quiet():
                    cdd.compound.gen.gen("{name}X", c, "class", "class", os.path.join(d, "out.py"), prepend="import vp_sentinel_mod_1\n", imports_from_file=c)
            except BaseException:
                pass
        seen = any(e[0] == "exec" for e in events) or any(e[0] == "import" and e[1][0] == "vp_sentinel_mod_1" for e in events)
        r.label("control:prepend-seen" if seen else "control:prepend-MISSED")
        if not seen:
            raise core.HarnessError("positive control failed: gen --prepend executed imports but the monitor did not see it")
        sys.modules.pop("vp_sentinel_mod_1", None)
    finally:
        shutil.rmtree(d, ignore_errors=True)
    ctx.record({"controls": True}, r)
    ctx.layer = None


def layer_main(ctx):
    ctx.run_given("adversarial", strategy(ctx), oracle, ctx.cfg["n"])


LAYERS = [("controls", layer_controls), ("adversarial", layer_main)]


def replay(case):
    return oracle(case)
