"""C16 - generated OpenAPI document is closed and matches the requested CRUD (DESIGN 4/C16)."""
import json
import os
import re
import shutil
import tempfile

from hypothesis import strategies as st

from vlib import core, gen_ir, hops
from vlib.core import Result, is_open
from vlib.norm import is_optional

ID = "C16"
RULE = (
    "a case is 1..3 generated SQLAlchemy declarative classes (single- and multi-word class names, __tablename__ equal "
    "to / derived from / unrelated to the class name with or without _tbl suffix, explicit or inferable or absent "
    "primary key, 1..6 columns of the SQL types, optional ForeignKey) x a non-empty CRUD subset of {C,R,D} per model x "
    "route prefix x app name; routes are generated with gen_routes/upsert_routes and fed to openapi_bulk; separately "
    "cdd.compound.openapi.emit.openapi runs on (name, json_schema(model), route, id, crud) tuples. Non-trivial = "
    "multi-word name or >=2 models or CRUD != CRD. Distinct = SHA-1 of the case."
)
TIERS = {"quick": {"shards": 8, "n": 250, "budget_s": 220}, "thorough": {"shards": 16, "n": 2000, "budget_s": 2700}}
FLOOR = {"quick": 80, "thorough": 4000}
REQUIRED_LABELS = {"quick": ["bulk-strict-slice", "crud:C", "crud:R", "crud:D", "crud:CRD", "name:multi-word", "models=2", "table:titlecases-to-class", "pk:explicit", "upsert-into-existing-routes", "gen_routes-via-cli", "one-routes-file-for-all-models", "route-is-prefix-of-another"], "thorough": []}
ASSUMPTIONS = ["the strict slice for openapi_bulk is: explicit or inferable PK among the generated columns, no ForeignKey, table name that title-cases to the class name (P16, P32, P33 cover the rest); cdd.compound.openapi.emit.openapi has no open class"]
COLS = {"int": "Integer", "str": "String", "bool": "Boolean", "float": "Float"}
CRUDS = ["C", "R", "D", "CR", "CD", "RD", "CRD"]
CLI_CRUDS = ("CR", "C", "R", "D", "CD", "CRD")  # what the command line's `--crud` accepts of these


def init_worker(ctx):
    global cdd
    cdd = hops.load()["cdd"]
    import cdd.__main__
    import cdd.compound.openapi.emit
    import cdd.compound.openapi.gen_openapi
    import cdd.compound.openapi.gen_routes


@st.composite
def model(draw, used, words=None):
    W = st.sampled_from(["Foo", "Bar", "Config", "Item", "Node", "User", "Log", "T", "Q", "Ab"])  # incl. one- and two-letter names
    words = words or draw(st.one_of(st.lists(W, min_size=1, max_size=1), st.lists(W, min_size=1, max_size=1), st.lists(W, min_size=2, max_size=2)))
    cls = "".join(words)
    while cls in used:
        cls += "X"
    used.add(cls)
    tbl_kind = draw(st.sampled_from(["titlecase", "titlecase", "titlecase_tbl", "titlecase_tbl", "snake", "unrelated"]))
    if len(words) == 1 and tbl_kind == "snake":
        tbl_kind = "titlecase"
    tbl = {"titlecase": cls.lower(), "titlecase_tbl": cls.lower() + "_tbl", "snake": "_".join(w.lower() for w in words), "unrelated": "tbl" + cls[:2].lower() + "s"}[tbl_kind]
    n = draw(st.integers(1, 5))
    ns = draw(st.lists(gen_ir.names.filter(lambda s: s != "id" and "_id" not in s and "_name" not in s and "id_" not in s), min_size=n, max_size=n, unique=True))
    cols = []
    for c in ns:
        t = draw(st.sampled_from(sorted(COLS)))
        cols.append({"name": c, "typ": t, "nullable": draw(st.booleans()), "default": draw(st.one_of(st.none(), st.just({"int": 5, "str": "x", "bool": True, "float": 0.5}[t]))), "fk": draw(st.integers(0, 24)) == 0, "nodoc": draw(st.integers(0, 3)) == 0})
    pk = draw(st.sampled_from(["explicit", "explicit", "explicit", "inferable", "inferable", "none"]))
    pk_name = None
    if pk == "explicit":
        i = draw(st.integers(0, n - 1))
        cols[i].update(pk=True, nullable=False, fk=False)
        pk_name = cols[i]["name"]
    elif pk == "inferable":
        cols[0]["name"] = pk_name = draw(st.sampled_from(["id", cols[0]["name"] + "_id"]))
        cols[0].update(typ="int", nullable=False, fk=False)
    return {"emitted": draw(st.integers(0, 2)) == 0, "doc_cols": draw(st.booleans()), "cls": cls, "tbl": tbl, "tbl_kind": tbl_kind, "cols": cols, "pk": pk, "pk_name": pk_name, "crud": draw(st.sampled_from(CRUDS)), "crud0": draw(st.sampled_from([None, None, "C", "R", "D", "CR", "RD"])), "multi": len(words) > 1}


@st.composite
def case_strategy(draw):
    used = set()
    models = [draw(model(used)) for _ in range(draw(st.integers(1, 3)))]
    if len(models) >= 2 and not models[0]["multi"] and draw(st.integers(0, 2)) == 0:
        # `Order` next to `Orderline`: the route of one model is a string prefix of another's
        ext = draw(model(used, words=[models[0]["cls"] + draw(st.sampled_from(["line", "set", "name"]))]))  # ONE word: title-cases to itself
        models[draw(st.integers(1, len(models) - 1))] = ext
        if draw(st.booleans()):
            models.reverse()
    return {"shared_routes": draw(st.booleans()), "models": models, "app": draw(st.sampled_from(["rest_api", "app", "api_v2"])), "prefix": draw(st.sampled_from(["/api", "", "/v1/things"])), "cli": draw(st.booleans())}


def strategy(ctx):
    return case_strategy()


def model_src(m):
    if m.get("emitted"):
        # the model as cdd's own SQLAlchemy emitter writes it (synthesised `id` with Identity(), FK in emitted form)
        from collections import OrderedDict

        params = OrderedDict()
        for c in m["cols"]:
            typ = c["typ"] if not c["nullable"] or c.get("pk") else "Optional[%s]" % c["typ"]
            doc = ("[PK] " if c.get("pk") else "") + ("[FK(other.id)] " if c["fk"] else "") + "the %s" % c["name"]
            p = {"typ": typ, "doc": doc}
            if c["default"] is not None and not c["nullable"]:
                p["default"] = c["default"]
            params[c["name"]] = p
        ir = {"name": m["tbl"], "type": "static", "doc": "The %s model" % m["cls"], "params": params, "returns": None}
        with core.quiet():
            src, _ = hops.emit_src("sqlalchemy", ir, class_name=m["cls"], table_name=m["tbl"])
        return "from sqlalchemy import *\n\n\n" + src + "\n"
    lines = ["from sqlalchemy import Boolean, Column, Float, ForeignKey, Integer, String", "", "", "class %s(Base):" % m["cls"], '    """', "    The %s model" % m["cls"], "", ]
    for c in m["cols"] if m.get("doc_cols", True) else []:
        lines.append("    :cvar %s: the %s" % (c["name"], c["name"]))
    lines += ['    """', "", '    __tablename__ = "%s"' % m["tbl"], ""]
    for c in m["cols"]:
        args = [COLS[c["typ"]]]
        if c["fk"]:
            args.append('ForeignKey("other.id")')
        if not c.get("nodoc"):
            args.append('doc="the %s"' % c["name"])  # `nodoc` columns are described nowhere unless the class docstring does
        if c.get("pk"):
            args.append("primary_key=True")
        if c["default"] is not None:
            args.append("default=%r" % (c["default"],))
        if not c.get("pk"):
            args.append("nullable=%s" % c["nullable"])
        lines.append("    %s = Column(%s)" % (c["name"], ", ".join(args)))
    return "\n".join(lines) + "\n"


def all_refs(o, acc):
    if isinstance(o, dict):
        for k, v in o.items():
            if k == "$ref":
                acc.append(v)
            else:
                all_refs(v, acc)
    elif isinstance(o, list):
        for v in o:
            all_refs(v, acc)
    return acc


def check_document(r, doc, tag, expected_ops, known=None):
    """closure clauses on one OpenAPI document"""
    try:
        text = json.dumps(doc)
    except Exception as e:
        if known:
            r.covered(known)
        else:
            r.fail("not-serialisable", "%s %r" % (tag, e))
        return
    doc = json.loads(text)
    comps = doc.get("components", {})
    for ref in all_refs(doc, []):
        mm = re.match(r"^#/components/([A-Za-z]+)/(.+)$", ref)
        if not mm or mm.group(2) not in comps.get(mm.group(1), {}):
            if known:
                r.covered(known)
            else:
                r.fail("dangling-ref", "%s %s is not defined in the document (components: %s)" % (tag, ref, {k: sorted(v) for k, v in comps.items()}))
    ops_found = {}
    for pth, item in doc.get("paths", {}).items():
        declared = {p.get("name") for p in item.get("parameters", []) if p.get("in") == "path"}
        for op, body in item.items():
            if op in ("get", "post", "delete", "put", "patch"):
                ops_found.setdefault(pth, set()).add(op)
                declared |= {p.get("name") for p in (body.get("parameters") or []) if p.get("in") == "path"}
        for name in re.findall(r"\{([^}]+)\}", pth):
            if name not in declared:
                r.fail("path-param-undeclared", "%s {%s} of %s is not declared with in: path" % (tag, name, pth))
    if expected_ops is not None:
        got = {p: sorted(v) for p, v in ops_found.items()}
        want = {p: sorted(v) for p, v in expected_ops.items() if v}
        if got != want:
            if known:
                r.covered(known)
            else:
                r.fail("operations", "%s operations %s, requested %s" % (tag, got, want))
    return doc


def expected(route, pk, crud):
    ops = {route: set(), "%s/{%s}" % (route, pk): set()}
    if "C" in crud:
        ops[route].add("post")
    if "R" in crud:
        ops["%s/{%s}" % (route, pk)].add("get")
    if "D" in crud:
        ops["%s/{%s}" % (route, pk)].add("delete")
    return ops


def oracle(case):
    r = Result()
    models = case["models"]
    r.label("models=%d" % len(models))
    if case.get("shared_routes") and len(models) >= 2:
        r.label("one-routes-file-for-all-models")
        if any(a["cls"] != b["cls"] and b["cls"].startswith(a["cls"]) for a in models for b in models):
            r.label("route-is-prefix-of-another")
    if all(m["tbl"].replace("_tbl", "").title() == m["cls"] and not (m.get("emitted") and (m["pk"] == "none" or any(c["fk"] for c in m["cols"]))) for m in models):
        r.label("bulk-strict-slice")
    for m in models:
        r.label("crud:" + m["crud"], "pk:" + m["pk"], "table:" + ("titlecases-to-class" if m["tbl"].replace("_tbl", "").title() == m["cls"] else "other"))
        if m["multi"]:
            r.label("name:multi-word")
        if any(c["fk"] for c in m["cols"]):
            r.label("has-fk")
    # ---- (A) cdd.compound.openapi.emit.openapi on (name, schema, route, id, crud) tuples: no open class
    tuples, exp = [], {}
    for m in models:
        props = {c["name"]: {"type": {"int": "integer", "str": "string", "bool": "boolean", "float": "number"}[c["typ"]], "description": "the %s" % c["name"]} for c in m["cols"]}
        schema = {"$id": "https://x/%s.schema.json" % m["cls"], "type": "object", "description": "The %s model" % m["cls"], "properties": props, "required": [c["name"] for c in m["cols"] if not c["nullable"]]}
        route = "%s/%s" % (case["prefix"], m["cls"].lower())
        pk = m["pk_name"] or "id"
        tuples.append((m["cls"], schema, route, pk, m["crud"]))
        exp.update(expected(route, pk, m["crud"]))
    try:
        with core.quiet():
            docA = cdd.compound.openapi.emit.openapi(tuples)
    except Exception as e:
        r.fail("emit-raises", core.exc_bucket(e))
        docA = None
    if docA is not None:
        d = check_document(r, docA, "[emit.openapi]", exp)
        if d is not None:
            for m in models:
                sch = d.get("components", {}).get("schemas", {}).get(m["cls"])
                if sch is None:
                    r.fail("schema-missing", "[emit.openapi] no component schema for %s" % m["cls"])
                elif sorted(sch.get("properties", {})) != sorted(c["name"] for c in m["cols"]):
                    r.fail("schema-properties", "[emit.openapi] %s: %s vs columns %s" % (m["cls"], sorted(sch.get("properties", {})), sorted(c["name"] for c in m["cols"])))
    # ---- (B) gen_routes + upsert_routes + openapi_bulk
    d = tempfile.mkdtemp(prefix="c16_", dir="/dev/shm" if os.path.isdir("/dev/shm") else None)
    try:
        mpaths, rpaths, exp = [], [], {}
        known = None
        for i, m in enumerate(models):
            if m["tbl"].replace("_tbl", "").title() != m["cls"] and is_open("P16"):
                known = known or "P16"
        for m in models:
            if m.get("emitted") and any(c["fk"] for c in m["cols"]) and is_open("P32"):
                known = known or "P32"
            if m.get("emitted") and m["pk"] == "none" and is_open("P33"):
                known = known or "P33"
            if m.get("emitted"):
                r.label("model:emitted-by-cdd")
        for i, m in enumerate(models):
            # one routes file per model, or - as an application would have it - one file for all of them
            mp, rp = os.path.join(d, "models%d.py" % i), os.path.join(d, "routes%s.py" % ("" if case.get("shared_routes") else i))
            with open(mp, "w") as f:
                f.write(model_src(m))
            route = "%s/%s" % (case["prefix"], m["cls"].lower())
            try:
                with core.quiet():
                    # history: an earlier upsert of another CRUD subset into the same routes file (the merge path of
                    # upsert_routes); afterwards the file must serve the UNION of both requests, each operation once
                    for crud in ([m["crud0"]] if m.get("crud0") else []) + [m["crud"]]:
                        routes, pkey = cdd.compound.openapi.gen_routes.gen_routes(app=case["app"], model_path=mp, model_name=m["cls"], crud=crud, route=route)
                        routes = list(routes)
                        if case.get("cli") and crud in CLI_CRUDS:
                            # the same step through `python -m cdd gen_routes` (the key is the one gen_routes reports)
                            cdd.__main__.main(["gen_routes", "--crud", crud, "--app-name", case["app"], "--model-path", mp, "--model-name", m["cls"], "--routes-path", rp, "--route", route])
                            r.label("gen_routes-via-cli")
                        else:
                            cdd.compound.openapi.gen_routes.upsert_routes(app=case["app"], routes=iter(routes), routes_path=rp, route=route, primary_key=pkey)
            except Exception as e:
                if known:
                    r.covered(known)
                else:
                    r.fail("gen-routes-raises", "%s (%s)" % (core.exc_bucket(e), m["cls"]))
                return _fin(r, case)
            if m["pk_name"] and pkey != m["pk_name"] and m.get("doc_cols", True) and m["cols"][0]["name"] != m["pk_name"] and is_open("P57"):
                r.covered("P57")  # the docstring's description wins the merge and the [PK] marker is lost
            elif m["pk_name"] and pkey != m["pk_name"] and not known:
                r.fail("primary-key", "%s: routes use %r, the model's key is %r" % (m["cls"], pkey, m["pk_name"]))
            try:
                compile(open(rp).read(), rp, "exec")
            except SyntaxError as e:
                r.fail("routes-not-python", "%s: %s" % (m["cls"], e))
            mpaths.append(mp)
            rpaths.append(rp)
            exp.update(expected(route, pkey, "".join(sorted(set(m["crud"]) | set(m.get("crud0") or "")))))
            if m.get("crud0"):
                r.label("upsert-into-existing-routes")
                src_routes = open(rp).read()
                n_defs = sum(isinstance(x, __import__("ast").FunctionDef) for x in __import__("ast").parse(src_routes).body)
                n_want = len(set(m["crud"]) | set(m["crud0"]))
                if n_defs != n_want and not case.get("shared_routes"):
                    r.fail("upsert-duplicates", "%s: routes file holds %d route functions after upserting %s then %s (want %d)" % (m["cls"], n_defs, m["crud0"], m["crud"], n_want))
        try:
            with core.quiet():
                docB = cdd.compound.openapi.gen_openapi.openapi_bulk(app_name=case["app"], model_paths=mpaths, routes_paths=sorted(set(rpaths), key=rpaths.index))
        except Exception as e:
            if known:
                r.covered(known)
            else:
                r.fail("openapi-bulk-raises", core.exc_bucket(e))
            return _fin(r, case)
        dB = check_document(r, docB, "[openapi_bulk]", exp, known=known)
        if dB is not None and not known:
            for m in models:
                sch = dB.get("components", {}).get("schemas", {}).get(m["cls"])
                if sch is None:
                    r.fail("schema-missing", "[openapi_bulk] no component schema named %s (have %s)" % (m["cls"], sorted(dB.get("components", {}).get("schemas", {}))))
                    continue
                want_cols = sorted(c["name"] for c in m["cols"])
                if sorted(sch.get("properties", {})) != want_cols:
                    r.fail("schema-properties", "[openapi_bulk] %s: properties %s vs columns %s" % (m["cls"], sorted(sch.get("properties", {})), want_cols))
                want_req = sorted(c["name"] for c in m["cols"] if c.get("pk") or not c["nullable"])
                got_req = sorted(sch.get("required", []))
                if got_req != want_req:
                    r.fail("schema-required", "[openapi_bulk] %s: required %s vs non-nullable columns %s" % (m["cls"], got_req, want_req))
    finally:
        shutil.rmtree(d, ignore_errors=True)
    return _fin(r, case)


def _fin(r, case):
    ms = case["models"]
    r.nontrivial = len(ms) >= 2 or any(m["multi"] or m["crud"] != "CRD" for m in ms)
    return r


def layer_main(ctx):
    ctx.run_given("openapi", strategy(ctx), oracle, ctx.cfg["n"])


LAYERS = [("openapi", layer_main)]


def replay(case):
    return oracle(case)
