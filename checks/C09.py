"""C09 - the concrete syntax tree is lossless for every input string (DESIGN 4/C09)."""
import itertools
import os

from hypothesis import strategies as st

from vlib import core
from vlib.core import Result

ID = "C09"
RULE = (
    "cases are strings: (a) every sequence of <=N tokens of a 19-token lexical alphabet (exhaustive), "
    "(b) Hypothesis lists over alphabet+corpus lines and arbitrary unicode text, (c) repository files whole, "
    "truncated and line-mutated. Non-trivial = the parse has >=2 nodes and the string has an unbalanced bracket, "
    "an odd number of triple quotes, a line continuation or a decorator. Distinct = SHA-1 of the string."
)
TIERS = {
    "quick": {"shards": 8, "exh_len": 5, "hyp": 400, "files": 12, "trunc_step": 0, "budget_s": 200, "claims_exhaustive": False, "fuzz_runs": 4000, "fuzz_shards": 2},
    "thorough": {"shards": 16, "exh_len": 6, "hyp": 6000, "files": 400, "trunc_step": 997, "budget_s": 2400, "claims_exhaustive": False, "fuzz_runs": 400000},
}
FLOOR = {"quick": 5000, "thorough": 100000}
REQUIRED_LABELS = {"quick": ["open-triple-quote", "unbalanced", "continuation", "decorator"], "thorough": []}
ASSUMPTIONS = [
    "cst_scanner/cst_parse are imported from VERIF_REPO in a fresh interpreter per shard",
    "the exhaustive layer is complete only for the stated alphabet and length",
]

ALPHA = ["\n", "    ", "'", '"', "'''", '"""', "#", "\\", "(", ")", "[", ":", "=", "@", ";", "def ", "class ", "x", "f(a)"]


def init_worker(ctx):
    global cst_parse, cst_scanner
    import cdd.__main__  # noqa: F401  (import preamble R7)
    from cdd.shared.cst import cst_parse
    from cdd.shared.cst_utils import cst_scanner


def oracle(s):
    r = Result()
    try:
        sc = cst_scanner(s)
        ps = cst_parse(s)
    except Exception as e:  # the property promises a result for every string
        r.fail("raises", "%s on %r" % (core.exc_bucket(e), s[:80]))
        return r
    if "".join(sc) != s:
        r.fail("scanner-concat", "scanner chunks do not concatenate to the input (%r)" % s[:80])
    if "".join(p.value for p in ps) != s:
        r.fail("parse-concat", "node values do not concatenate to the input (%r)" % s[:80])
    if ps:
        if ps[0].line_no_start != 1:
            r.fail("first-line", "first node starts at line %r" % (ps[0].line_no_start,))
        for a, b in zip(ps, ps[1:]):
            if a.line_no_end != b.line_no_start:
                r.fail("tiling", "node ending at %r followed by node starting at %r" % (a.line_no_end, b.line_no_start))
                break
        for p in ps:
            if p.line_no_end - p.line_no_start != p.value.count("\n"):
                r.fail("span", "node spans %r..%r but holds %d newlines" % (p.line_no_start, p.line_no_end, p.value.count("\n")))
                break
    elif s:
        r.fail("parse-concat", "no node for a non-empty string")
    tq = s.count("'''") + s.count('"""')
    feats = []
    if tq % 2:
        feats.append("open-triple-quote")
    if s.count("(") != s.count(")") or s.count("[") != s.count("]"):
        feats.append("unbalanced")
    if "\\\n" in s:
        feats.append("continuation")
    if "@" in s:
        feats.append("decorator")
    r.label(*feats)
    r.label("nodes>=2" if len(ps) >= 2 else "nodes<2")
    r.nontrivial = len(ps) >= 2 and bool(feats)
    return r


# second alphabet: bracketed expression statements (dict / set / list / generator displays, comprehensions), the
# statement kinds `infer_cst_type` tells apart by their first character
ALPHA2 = ["\n", "    ", "{", "}", "[", "]", "(", ")", ":", ",", "x", "1", " for x in y", "#", "'''", "=", "@"]


def layer_exhaustive(ctx):
    _exhaustive(ctx, "exhaustive", ALPHA, ctx.cfg["exh_len"])


def layer_exhaustive2(ctx):
    _exhaustive(ctx, "exhaustive-brackets", ALPHA2, ctx.cfg["exh_len"] - 1)


def _exhaustive(ctx, layer, ALPHA, L):
    ctx.layer = layer
    n = 0
    complete = True
    for length in range(0, L + 1):
        for seq in itertools.product(ALPHA, repeat=length):
            n += 1
            if n % ctx.nshards != ctx.shard:
                continue
            if n % 4096 == ctx.shard and ctx.expired():
                complete = False
                break
            s = "".join(seq)
            fails = ctx.evaluate(oracle, s)
            if fails:
                ctx.violation(s, fails)
                return
        if not complete:
            break
    if complete:
        ctx.mark_exhaustive(layer, "all sequences of <=%d tokens over the %d-token alphabet (%d strings over all shards)" % (L, len(ALPHA), n))
    else:
        ctx.stats.notes.append("exhaustive layer cut at deadline in shard %d" % ctx.shard)


def _corpus_lines():
    lines = []
    root = os.path.join(core.REPO, "cdd")
    for name in ("shared/cst_utils.py", "tests/mocks/cst.py", "tests/mocks/doctrans.py", "shared/ast_cst_utils.py"):
        p = os.path.join(root, name)
        if os.path.exists(p):
            lines += [l for l in open(p, encoding="utf8").read().splitlines(True) if len(l) < 100][:400]
    return lines or ["pass\n"]


def layer_hypothesis(ctx):
    lines = _corpus_lines()
    tok = st.sampled_from(ALPHA + ALPHA2 + ["{1: 2}", "{1, 2}", "[x for x in y]", "(x for x in y)", "\t", "\r", "\f", " ", "\\\n", "\n\n", "'''\n", '"""\n', "@deco\n", "def f(a,\n", "):\n", "lambda: ", "é", " "])
    strat = st.one_of(
        st.lists(st.one_of(tok, st.sampled_from(lines)), max_size=30).map("".join),
        st.lists(tok, max_size=60).map("".join),
        st.text(max_size=120),
        st.text(alphabet=st.sampled_from(list("'\"\\\n #()[]{}:=@;xdefclas ")), max_size=80),
    )
    ctx.run_given("hypothesis", strat, oracle, ctx.cfg["hyp"])


def _mutations(src, rnd_ints):
    lines = src.splitlines(True)
    if len(lines) < 3:
        return
    for k in rnd_ints:
        i = k % len(lines)
        yield "".join(lines[:i] + lines[i + 1 :])  # drop a line
        yield "".join(lines[:i] + [lines[i]] + lines[i:])  # duplicate
        j = (k // 7) % len(lines)
        l2 = list(lines)
        l2[i], l2[j] = l2[j], l2[i]
        yield "".join(l2)  # swap
        yield "".join(lines[:i] + ["(\n"] + lines[i:])  # unbalance
        yield "".join(lines[:i] + ['"""\n'] + lines[i:])  # open a triple quote
        yield "".join(lines[:i] + [lines[i].rstrip("\n") + " \\\n"] + lines[i + 1 :])  # continuation


def layer_files(ctx):
    ctx.layer = "files"
    files = []
    for d, _ds, fs in os.walk(os.path.join(core.REPO, "cdd")):
        for f in sorted(fs):
            if f.endswith(".py"):
                files.append(os.path.join(d, f))
    files.sort(key=lambda p: (os.path.getsize(p), p))
    files = [p for p in files if os.path.getsize(p) < (6000 if ctx.tier == "quick" else 40000)]
    # deterministic spread over sizes, then sharded
    step = max(1, len(files) // ctx.cfg["files"])
    chosen = files[::step][: ctx.cfg["files"]]
    import random as _r  # seeded PRNG for mutation positions only; a pure function of VERIF_SEED

    rnd = _r.Random(ctx.derived_seed("files"))
    for n, p in enumerate(chosen):
        if n % ctx.nshards != ctx.shard:
            continue
        if ctx.expired():
            ctx.stats.notes.append("files layer cut at deadline")
            return
        src = open(p, encoding="utf8").read()
        variants = [src]
        if ctx.cfg["trunc_step"]:
            variants += [src[:k] for k in range(ctx.cfg["trunc_step"], len(src), ctx.cfg["trunc_step"])]
        else:
            variants += [src[: len(src) // 2], src[: len(src) // 3]]
        small = src[:3000]
        variants += list(_mutations(small, [rnd.randrange(1 << 30) for _ in range(2 if ctx.tier == "quick" else 10)]))
        for v in variants:
            fails = ctx.evaluate(oracle, v)
            if fails:
                ctx.violation(_minimise(v), fails)
                return


def _minimise(s):
    """ddmin on lines then characters, keeping 'oracle reports a failure'."""

    def bad(x):
        try:
            with core.watchdog(20):
                return bool(oracle(x).failures)
        except core.CaseTimeout:
            return False

    for unit in ("lines", "chars"):
        parts = s.splitlines(True) if unit == "lines" else list(s)
        if unit == "chars" and len(parts) > 400:
            break
        n = 2
        while len(parts) >= 2:
            chunk = max(1, len(parts) // n)
            reduced = False
            for i in range(0, len(parts), chunk):
                cand = parts[:i] + parts[i + chunk :]
                if cand and bad("".join(cand)):
                    parts, n, reduced = cand, max(n - 1, 2), True
                    break
            if not reduced:
                if chunk == 1:
                    break
                n = min(len(parts), n * 2)
        s = "".join(parts)
    return s


# ---- coverage-guided layer (atheris): oracle inside the target, fresh interpreter ------------------------------------
_FTOK = ALPHA + ALPHA2 + ["\t", "\r", " ", "\\\n", "'''\n", '"""\n', "@deco\n", "def f(a,\n", "):\n", "lambda: ", "if x:\n", "else:\n", "return x\n", "r'", 'b"', "\u00e9"]


def _fuzz_decode(data):
    """first byte picks the reading: UTF-8 text, token indices (structure-aware mutation) or a mix of both."""
    if not data:
        return ""
    mode, rest = data[0], data[1:]
    if mode % 3 == 0:
        return rest.decode("utf-8", "replace")
    if mode % 3 == 1:
        return "".join(_FTOK[b % len(_FTOK)] for b in rest)
    # mixed: a printable ASCII byte is the character itself, anything else a token index
    return "".join(chr(b) if 0x20 <= b <= 0x7E else _FTOK[b % len(_FTOK)] for b in rest)


def _fuzz_corpus():
    seeds = [
        b"\x00def f(a):\n    \"\"\"doc\"\"\"\n    return a\n",
        b"\x00class A(object):\n    x: int = 5  # c\n\n    @staticmethod\n    def m(): pass\n",
        b"\x00x = {1: 2,\n     3: 4}\n'''open",
        b"\x01" + bytes(range(0, 40)),
    ]
    for l in _corpus_lines()[:60]:
        seeds.append(b"\x00" + l.encode())
    return seeds


FUZZ = {"atheris": (_fuzz_decode, oracle, _fuzz_corpus), "atheris-empty-corpus": (_fuzz_decode, oracle, lambda: [])}


def minimise(case):
    return _minimise(case)


def layer_fuzz(ctx):
    # two kinds of campaign, one from a few small valid inputs and one from the empty corpus (the starting corpus
    # changes what a coverage-guided search finds); in the quick tier only two shards run one each
    n = ctx.cfg.get("fuzz_runs", 0)
    if not n or ctx.shard >= ctx.cfg.get("fuzz_shards", ctx.nshards):
        return
    if ctx.shard % 2 == 0:
        ctx.run_fuzz("atheris", n, with_corpus=True, max_len=200)
    else:
        ctx.run_fuzz("atheris-empty-corpus", n, with_corpus=False, max_len=200)


LAYERS = [("exhaustive", layer_exhaustive), ("exhaustive-brackets", layer_exhaustive2), ("hypothesis", layer_hypothesis), ("files", layer_files), ("atheris", layer_fuzz)]


def replay(case):
    return oracle(case)
