"""C07 - doctrans changes only docstrings and annotations, never the program (DESIGN 4/C07)."""
import ast
import io
import os
import shutil
import tempfile
import tokenize

from hypothesis import strategies as st

from vlib import core, gen_prog
from vlib.core import Result, is_open

ID = "C07"
RULE = (
    "a case is one generated module (functions, async functions, classes with self/cls/static methods, nested defs, "
    "positional / defaulted / annotated / *args / **kwargs / keyword-only parameters, one- and multi-line headers, "
    "decorators, docstrings in three styles or none documenting all or a subset of the parameters, comments, simple "
    "bodies) plus a history of 1..3 doctrans runs (target style x type-annotations on/off x word-wrap on/off), through "
    "the API or through `cdd.__main__.main(['doctrans', ...])`; after every run the file is compared with the ORIGINAL. "
    "A second family are files on which doctrans must fail (syntax errors): the bytes must be unchanged. Non-trivial = "
    "a run changed the file and the module has a parameter with a default or */**. Distinct = SHA-1 of (module, history)."
)
TIERS = {"quick": {"shards": 8, "n": 160, "n_fault": 25, "n_inject": 60, "budget_s": 220}, "thorough": {"shards": 16, "n": 2500, "n_fault": 300, "n_inject": 1500, "budget_s": 2700}}
FLOOR = {"quick": 60, "thorough": 4000}
REQUIRED_LABELS = {"quick": ["has-default", "star-args", "kw-only", "decorated", "multi-line-header", "nested-def", "class", "runs=2", "via-cli", "fault-fired", "fault-propagated"], "thorough": []}
ASSUMPTIONS = [
    "erase() removes docstring Expr nodes, arg/return annotations, turns AnnAssign-with-value into Assign, drops value-less AnnAssign, clears type_comment - on both sides identically",
    "the shapes that are open findings (P19 async docstring, P26 comment in multi-line header, P27 one-line def, P28 raw docstring, P68 decorated def with a trailing header comment) are generated only under their own labels",
]


def init_worker(ctx):
    global cdd
    import cdd.__main__  # noqa: F401
    import cdd.compound.doctrans


class Erase(ast.NodeTransformer):
    def _doc(self, node):
        self.generic_visit(node)
        b = node.body
        if b and isinstance(b[0], ast.Expr) and isinstance(b[0].value, ast.Constant) and isinstance(b[0].value.value, str):
            node.body = b[1:] or [ast.Pass()]
        return node

    def visit_Module(self, n):
        return self._doc(n)

    def visit_ClassDef(self, n):
        return self._doc(n)

    def visit_FunctionDef(self, n):
        n.returns = None
        n.type_comment = None
        return self._doc(n)

    visit_AsyncFunctionDef = visit_FunctionDef

    def visit_arg(self, n):
        n.annotation = None
        n.type_comment = None
        return n

    def visit_AnnAssign(self, n):
        self.generic_visit(n)
        if n.value is None:
            return None
        return ast.Assign(targets=[n.target], value=n.value, type_comment=None)

    def visit_Assign(self, n):
        self.generic_visit(n)
        n.type_comment = None
        return n


def erased(src):
    t = Erase().visit(ast.parse(src))
    for n in ast.walk(t):  # a body emptied by dropping value-less AnnAssigns
        if hasattr(n, "body") and isinstance(n.body, list) and not n.body:
            n.body = [ast.Pass()]
    return ast.dump(t)


def comments(src):
    return [t.string for t in tokenize.generate_tokens(io.StringIO(src).readline) if t.type == tokenize.COMMENT]


def protected_lines(src):
    """physical lines that are neither inside a def/class header span nor inside a docstring span"""
    tree = ast.parse(src)
    lines = src.splitlines()
    excl = set()
    for n in ast.walk(tree):
        if isinstance(n, (ast.FunctionDef, ast.AsyncFunctionDef, ast.ClassDef, ast.Module)):
            body = n.body
            if not isinstance(n, ast.Module):
                first = body[0]
                hdr_end = (first.lineno - 1) if first.lineno > n.lineno else n.lineno
                for l in range(n.lineno, hdr_end + 1):
                    excl.add(l)
            if body and isinstance(body[0], ast.Expr) and isinstance(body[0].value, ast.Constant) and isinstance(body[0].value.value, str):
                for l in range(body[0].lineno, body[0].end_lineno + 1):
                    excl.add(l)
        if isinstance(n, ast.AnnAssign):  # variable annotations may move to / from a type comment
            for l in range(n.lineno, n.end_lineno + 1):
                excl.add(l)
    return [l for i, l in enumerate(lines, 1) if i not in excl]


def is_subseq(a, b):
    it = iter(b)
    return all(any(x == y for y in it) for x in a)


@st.composite
def case_strategy(draw, hazards=()):
    m = draw(gen_prog.module(hazards=hazards, max_items=3))
    runs = draw(st.lists(st.tuples(st.sampled_from(["rest", "google", "numpydoc"]), st.booleans(), st.sampled_from([None, True])), min_size=1, max_size=3))
    return {"src": m["src"], "feat": m["feat"], "runs": [list(x) for x in runs], "cli": draw(st.booleans())}


def strategy(ctx):
    return case_strategy()


def run_doctrans(path, style, ta, nww, cli):
    with core.quiet():
        if cli:
            argv = ["doctrans", "--filename", path, "--format", style, "--type-annotations" if ta else "--no-type-annotations"]
            # (--no-word-wrap sits in the same mutually exclusive group as the annotation switches: not combinable)
            cdd.__main__.main(argv)
        else:
            cdd.compound.doctrans.doctrans(filename=path, docstring_format=style, type_annotations=ta, no_word_wrap=nww)


def oracle(case):
    r = Result()
    src = case["src"]
    feat = set(case["feat"])
    hazard = {f.split(":")[1].split("-")[0] for f in feat if f.startswith("hazard:")}
    open_h = {h for h in hazard if is_open(h)}
    for f in feat:
        r.label(f)
    r.label("runs=%d" % len(case["runs"]), "via-cli" if case["cli"] else "via-api")
    try:
        want = erased(src)
    except SyntaxError as e:
        raise core.HarnessError("generator produced invalid Python: %s\n%s" % (e, src))
    want_comments = comments(src)
    d = tempfile.mkdtemp(prefix="c07_", dir="/dev/shm" if os.path.isdir("/dev/shm") else None)
    changed = False
    try:
        p = os.path.join(d, "m.py")
        with open(p, "w") as f:
            f.write(src)
        for i, (style, ta, nww) in enumerate(case["runs"]):
            tag = "[run %d: %s,ta=%s,nww=%s]" % (i + 1, style, ta, nww)
            before = open(p).read()
            try:
                run_doctrans(p, style, ta, nww, case["cli"])
            except BaseException as e:
                if isinstance(e, (core.CaseTimeout, KeyboardInterrupt)):
                    raise
                after = open(p).read()
                if after != before:
                    r.fail("fault-atomicity", "%s doctrans raised %s and the file changed" % (tag, core.exc_bucket(e)))
                # "if the conversion fails with an error the file is left byte-identical": a raise is an allowed outcome
                r.exc.append("run%d %s" % (i + 1, core.exc_bucket(e)))
                r.label("doctrans-raised")
                break
            after = open(p).read()
            changed = changed or after != before
            try:
                compile(after, "<result>", "exec")
            except SyntaxError as e:
                if open_h:
                    for h in sorted(open_h):
                        r.covered(h)
                else:
                    r.fail("result-not-python", "%s %s" % (tag, e))
                break
            got = erased(after)
            if got != want:
                if open_h & {"P19", "P27", "P28", "P68"}:
                    for h in sorted(open_h & {"P19", "P27", "P28", "P68"}):
                        r.covered(h)
                else:
                    r.fail("ast-changed", "%s %s" % (tag, _ast_diff(want, got)))
                break
            if comments(after) != want_comments:
                if "P26" in open_h:
                    r.covered("P26")
                else:
                    r.fail("comments", "%s %r -> %r" % (tag, want_comments, comments(after)))
                break
            if not is_subseq(protected_lines(before), after.splitlines()):
                if open_h:
                    for h in sorted(open_h):
                        r.covered(h)
                else:
                    missing = [l for l in protected_lines(before) if l not in after.splitlines()][:3]
                    r.fail("lines-changed", "%s lines outside headers/docstrings changed, e.g. %r" % (tag, missing))
                break
    finally:
        shutil.rmtree(d, ignore_errors=True)
    r.nontrivial = changed and bool(feat & {"has-default", "star-args", "kw-only"})
    return r


def _ast_diff(a, b):
    i = 0
    while i < min(len(a), len(b)) and a[i] == b[i]:
        i += 1
    return "original ...%s... vs result ...%s..." % (a[max(0, i - 60) : i + 80], b[max(0, i - 60) : i + 80])


# ---- fault side: files doctrans cannot process must stay byte-identical
@st.composite
def fault_case(draw):
    m = draw(gen_prog.module(max_items=2))
    lines = m["src"].splitlines(True)
    i = draw(st.integers(0, len(lines) - 1))
    breaker = draw(st.sampled_from(["def broken(:\n", "    x = = 1\n", "class :\n", "'''unterminated\n", "    return )\n", "\x00\n"]))
    src = "".join(lines[:i] + [breaker] + lines[i:])
    return {"src": src, "style": draw(st.sampled_from(["rest", "google", "numpydoc"])), "ta": draw(st.booleans()), "fault": True}


def oracle_fault(case):
    r = Result()
    r.label("fault-input")
    try:
        ast.parse(case["src"])
        r.label("fault-input-still-valid")
        return r
    except (SyntaxError, ValueError):
        pass
    d = tempfile.mkdtemp(prefix="c07f_", dir="/dev/shm" if os.path.isdir("/dev/shm") else None)
    try:
        p = os.path.join(d, "m.py")
        with open(p, "w") as f:
            f.write(case["src"])
        st0 = os.stat(p)
        raised = False
        try:
            run_doctrans(p, case["style"], case["ta"], None, False)
        except BaseException as e:
            if isinstance(e, (core.CaseTimeout, KeyboardInterrupt)):
                raise
            raised = True
        after = open(p).read()
        if after != case["src"]:
            r.fail("fault-atomicity", "doctrans %s on an unparseable file and the bytes changed" % ("raised" if raised else "returned"))
        r.label("fault-raised" if raised else "fault-returned")
        r.nontrivial = raised
        _ = st0
    finally:
        shutil.rmtree(d, ignore_errors=True)
    return r


# ---- injected faults: a conversion step raises in the middle of a run on a VALID module --------------------------------
# (module, attribute) of functions doctrans goes through; the k-th call is made to raise.  Every cdd module that holds
# the same function object under that name is patched (doctrans imports several of them by name).
FAULT_POINTS = [
    ("cdd.shared.ast_cst_utils", "maybe_replace_doc_str_in_function_or_class"),
    ("cdd.shared.ast_cst_utils", "maybe_replace_function_return_type"),
    ("cdd.shared.ast_cst_utils", "maybe_replace_function_args"),
    ("cdd.shared.ast_cst_utils", "find_cst_at_ast"),
    ("cdd.compound.doctrans_utils", "doctransify_cst"),
    ("cdd.shared.cst", "cst_parse"),
    ("cdd.shared.cst_utils", "cst_scanner"),
    ("cdd.docstring.emit", "docstring"),
    ("cdd.shared.docstring_parsers", "parse_docstring"),
    ("cdd.shared.source_transformer", "to_code"),
    ("cdd.shared.ast_utils", "cmp_ast"),
]


class InjectedFault(RuntimeError):
    pass


@st.composite
def injected_case(draw):
    m = draw(gen_prog.module(max_items=3))
    return {"src": m["src"], "style": draw(st.sampled_from(["rest", "google", "numpydoc"])), "ta": draw(st.booleans()), "cli": draw(st.booleans()),
            "point": draw(st.integers(0, len(FAULT_POINTS) - 1)), "k": draw(st.integers(1, 6)), "inject": True}


def oracle_injected(case):
    import sys

    r = Result()
    modname, attr = FAULT_POINTS[case["point"]]
    r.label("inject:" + attr)
    try:
        ast.parse(case["src"])
    except SyntaxError as e:
        raise core.HarnessError("generator produced invalid Python: %s" % e)
    importlib = __import__("importlib")
    target = getattr(importlib.import_module(modname), attr)
    calls = [0]

    def wrapper(*a, **k):
        calls[0] += 1
        if calls[0] == case["k"]:
            raise InjectedFault("injected at call %d of %s" % (calls[0], attr))
        return target(*a, **k)

    patched = []
    for name, mod in list(sys.modules.items()):
        if name.startswith("cdd") and mod is not None and getattr(mod, attr, None) is target:
            setattr(mod, attr, wrapper)
            patched.append(mod)
    d = tempfile.mkdtemp(prefix="c07i_", dir="/dev/shm" if os.path.isdir("/dev/shm") else None)
    try:
        p = os.path.join(d, "m.py")
        with open(p, "w") as f:
            f.write(case["src"])
        raised = None
        try:
            run_doctrans(p, case["style"], case["ta"], None, case["cli"])
        except BaseException as e:
            if isinstance(e, (core.CaseTimeout, KeyboardInterrupt)):
                raise
            raised = e
        fired = calls[0] >= case["k"]
        after = open(p).read()
        others = sorted(x for x in os.listdir(d) if x != "m.py" and x != "__pycache__")
        if fired:
            r.label("fault-fired")
            if raised is not None:
                r.label("fault-propagated")
                if after != case["src"]:
                    r.fail("fault-atomicity", "a conversion step (%s, call %d) raised %s and the file was left changed" % (attr, case["k"], type(raised).__name__))
                if others:
                    r.fail("fault-leftovers", "the failed run left %s behind" % others)
            else:
                # the error was swallowed: whatever was written must still satisfy the ordinary clauses
                r.label("fault-swallowed")
                try:
                    if erased(after) != erased(case["src"]):
                        r.fail("fault-atomicity", "%s (call %d) failed, doctrans returned normally and the program changed" % (attr, case["k"]))
                except SyntaxError as e:
                    r.fail("fault-atomicity", "%s (call %d) failed, doctrans returned normally and left invalid Python: %s" % (attr, case["k"], e))
            r.nontrivial = True
        else:
            r.label("fault-not-reached")
    finally:
        for mod in patched:
            setattr(mod, attr, target)
        shutil.rmtree(d, ignore_errors=True)
    return r


def layer_injected(ctx):
    ctx.run_given("injected-faults", injected_case(), oracle_injected, ctx.cfg["n_inject"])


def layer_main(ctx):
    ctx.run_given("programs", strategy(ctx), oracle, ctx.cfg["n"])


def layer_hazards(ctx):
    ctx.run_given("hazard-shapes", case_strategy(hazards=("P19", "P26", "P27", "P28", "P68")), oracle, max(10, ctx.cfg["n"] // 4))


def layer_fault(ctx):
    ctx.run_given("faults", fault_case(), oracle_fault, ctx.cfg["n_fault"])


LAYERS = [("programs", layer_main), ("hazard-shapes", layer_hazards), ("faults", layer_fault), ("injected-faults", layer_injected)]


def replay(case):
    if case.get("inject"):
        return oracle_injected(case)
    return oracle_fault(case) if case.get("fault") else oracle(case)
