"""C01 - docstring <-> interface round-trip in ReST, Google and NumPy styles (DESIGN 4/C01)."""
import itertools

from hypothesis import strategies as st

from vlib import core, gen_ir, hops
from vlib.core import Result, is_open
from vlib.gen_ir import NoneStr
from vlib.norm import ABSENT, default_view, is_optional, normdoc

ID = "C01"
RULE = (
    "a case is one generated interface description (docstring-representable domain) pushed through every cell of "
    "style{rest,google,numpydoc} x emit_default_doc{T,F} x parse-side emit_default_doc{T,F} x emit_types{T,F} x "
    "word_wrap{T,F} (48 cells; google/numpydoc only when defaults form a suffix). Non-trivial = >=2 parameters and "
    ">=1 default. Distinct = SHA-1 of the canonical JSON of the interface."
)
TIERS = {
    "quick": {"shards": 8, "n": 260, "budget_s": 200},
    "thorough": {"shards": 16, "n": 12000, "budget_s": 2700},
}
FLOOR = {"quick": 300, "thorough": 20000}
REQUIRED_LABELS = {"quick": ["d:neg-int", "d:float-exp", "d:bool", "d:str", "d:None", "d:code", "kind:literal", "kind:union", "descr:long-token", "undocumented-param"], "thorough": []}
ASSUMPTIONS = [
    "descriptions are drawn from a vocabulary free of the type-hint trigger words (quantifier of C01)",
    "string defaults are non-empty and dot-free (P12 is recorded as a finding and exercised by C08/C11/C14)",
]
STYLES = ("rest", "google", "numpydoc")
CELLS = list(itertools.product(STYLES, (True, False), (True, False), (True, False), (True, False)))


def init_worker(ctx):
    global cdd, derive_docstring_format
    m = hops.load()
    cdd = m["cdd"]
    from cdd.shared.docstring_utils import derive_docstring_format


@st.composite
def undocumented_some(draw):
    """some parameters carry no description at all (type / default only) - an ordinary shape of real docstrings"""
    case = draw(gen_ir.interface("docstring", suffix=True, min_params=1, max_params=6))
    idx = draw(st.lists(st.integers(0, len(case["params"]) - 1), min_size=1, max_size=3, unique=True))
    for i in idx:
        case["params"][i][1]["doc"] = ""
    return case


def strategy(ctx):
    return st.builds(
        lambda i, suffix_only: dict(i, cells=None),
        st.one_of(
            gen_ir.interface("docstring", suffix=True),
            gen_ir.interface("docstring", suffix=False),
            gen_ir.interface("docstring", suffix=True, doc=gen_ir.long_descr, max_params=4),
            gen_ir.interface("docstring", suffix=True, doc=gen_ir.mixed_descr, name_strategy=gen_ir.rich_names),
            gen_ir.wrap_boundary_interface(),
            undocumented_some(),
            gen_ir.interface("docstring", suffix=True, max_params=3, doc=st.one_of(gen_ir.descr, gen_ir.long_token_descr())),
        ),
        st.just(0),
    )


def _suffix_legal(case):
    seen = False
    for _n, p in case["params"]:
        if "default" in p:
            seen = True
        elif seen:
            return False
    return True


def _typ_from_default_ok(orig, got):
    """types omitted from the text: the parser may leave typ out, or infer it from a literal default."""
    if got is None:
        return True
    if "default" in orig and orig["default"] != NoneStr and not isinstance(orig["default"], str):
        return got in (type(orig["default"]).__name__, orig["typ"])
    if "default" in orig and isinstance(orig["default"], str):
        return got in ("str", orig["typ"])
    return got == orig["typ"]


def check_cell(r, case, ir, cell):
    style, eedd, pedd, et, ww = cell
    tag = "[%s,e%d,p%d,t%d,w%d]" % (style, eedd, pedd, et, ww)
    params = case["params"]
    has_code_default = any(isinstance(p.get("default"), str) and p["default"].startswith("(") for _n, p in params)
    try:
        with core.quiet():
            ds = cdd.docstring.emit.docstring(gen_ir.to_ir(case), docstring_format=style, emit_default_doc=eedd, emit_types=et, word_wrap=ww)
    except Exception as e:
        r.fail("emit-raises", "%s %s" % (tag, core.exc_bucket(e)))
        return
    has_ret = case["returns"] is not None
    # -- P22/P23: classes (decided on the input alone) that corrupt the *whole* parse of google/numpydoc
    #    texts whose return section is degenerate
    if style != "rest" and has_ret and not params and is_open("P22"):
        r.covered("P22")
        return
    # P23 (numpydoc return entry written without types): relaxes the clauses listed below, not the cell
    p23 = style == "numpydoc" and has_ret and not et and is_open("P23")
    try:
        with core.quiet():
            back = cdd.docstring.parse.docstring(ds, emit_default_doc=pedd)
    except Exception as e:
        # P24: ReST, types not written, code default -> literal_eval ValueError
        if is_open("P24") and style == "rest" and not et and eedd and pedd and has_code_default:
            r.covered("P24")
            return
        if is_open("P40") and style == "numpydoc" and ww and eedd and any(
            "default" in p and len(p.get("doc", "")) + len(". Defaults to ") + len(repr(p["default"])) > 90 for _n, p in params
        ):
            r.covered("P40")  # the wrapped 'Defaults to "two\n    words"' is not even parseable
            return
        r.fail("parse-raises", "%s %s on %r" % (tag, core.exc_bucket(e), ds[:300]))
        return
    # P77: a parameter WITHOUT description: the `Defaults to` sentence only ever rides on a description, so the default
    # of such a parameter is not in the text in any style, and ReST without types writes no line for it at all
    undoc = [n for n, p in params if not p.get("doc")] if is_open("P77") else []
    if undoc and style == "rest" and not et:
        r.covered("P77")
        if list(back["params"]) != [n for n, _p in params if n not in undoc]:
            r.fail("names", "%s want %s (undocumented ones have no line in ReST without types) got %s text=%r" % (tag, [n for n, _p in params if n not in undoc], list(back["params"]), ds[:400]))
        return
    if params or has_ret:
        det = derive_docstring_format(ds).name
        if det != style:
            r.fail("style-detect", "%s emitted text classified as %s: %r" % (tag, det, ds[:200]))
            return
    got_names = list(back["params"])
    want_names = [n for n, _p in params]
    if p23 and got_names != want_names and got_names[: len(want_names)] == want_names:
        r.covered("P23")  # the un-typed return section is read as further parameters: only the tail is garbage
    elif got_names != want_names:
        r.fail("names", "%s want %s got %s text=%r" % (tag, want_names, got_names, ds[:400]))
        return
    for n, p in params:
        b = back["params"][n]
        extra = set(b) - {"typ", "doc", "default", "x_typ"}
        if extra:
            r.fail("keys", "%s %s has keys %s" % (tag, n, sorted(extra)))
        p40 = (
            style == "numpydoc" and ww and eedd and "default" in p and is_open("P40")
            and len(p.get("doc", "")) + len(". Defaults to ") + len(repr(p["default"])) > 90
        )
        # P63: ReST + word_wrap: a string default with inner blanks that is wrapped INSIDE its quotes keeps the line
        # break / indent in the value when the parser is asked to strip the prose (parse-side flag F)
        p63 = (
            style == "rest" and ww and eedd and not pedd and isinstance(p.get("default"), str) and " " in p["default"] and is_open("P63")
            and len(p.get("doc", "")) + len(". Defaults to ") + len(repr(p["default"])) > 80
        )
        if et:
            if b.get("typ") != p["typ"] and p40 and b.get("typ") == "Optional[%s]" % p["typ"]:
                r.covered("P40")
            elif b.get("typ") != p["typ"]:
                r.fail("typ", "%s %s: %r -> %r" % (tag, n, p["typ"], b.get("typ")))
        elif not _typ_from_default_ok(p, b.get("typ")):
            r.fail("typ-invented", "%s %s: types omitted, original %r, got %r" % (tag, n, p["typ"], b.get("typ")))
        # P40: numpydoc + word_wrap: when the description plus its 'Defaults to' sentence exceeds the wrap width the
        # sentence may be split over two lines and is then not recognised (default and prose clauses of that param only)
        if eedd:
            # without types in the text the parser cannot know the param is Optional: absent == None only with types
            wd = default_view(p)
            gd = default_view(b, typ=p["typ"])
            if wd != gd and p40:
                r.covered("P40")
            elif wd != gd and n in undoc and (gd[1] in (ABSENT, NoneStr) or (style != "rest" and gd[1] in (0, 0.0, "", False))):
                # (google / numpydoc force the zero value onto every entry after the first one that carries a default)
                r.covered("P77")
            elif wd != gd and p63:
                r.covered("P63")
            elif wd != gd:
                r.fail("default", "%s %s (%s): %r -> %r text=%r" % (tag, n, p["typ"], wd, gd, ds[:300]))
        else:
            gd = b.get("default", ABSENT)
            if gd != ABSENT and gd != NoneStr:
                r.fail("default-invented", "%s %s: text carries no default, parser returned %r" % (tag, n, gd))
            elif gd == NoneStr and not (is_optional(p["typ"]) or p.get("default") == NoneStr) and et:
                r.fail("default-invented", "%s %s (%s): None default invented" % (tag, n, p["typ"]))
        want_doc, got_doc = normdoc(p.get("doc")), normdoc(b.get("doc"))
        if want_doc != got_doc:
            r.fail("doc", "%s %s: %r -> %r" % (tag, n, p.get("doc"), b.get("doc")))
        if p40 or n in undoc:
            pass
        elif eedd and pedd and "default" in p and p["default"] != NoneStr and "Defaults to" not in (b.get("doc") or ""):
            r.fail("default-prose", "%s %s: parse side asked to keep the prose but it is gone: %r" % (tag, n, b.get("doc")))
        elif not pedd and "Defaults to" in (b.get("doc") or ""):
            r.fail("default-prose", "%s %s: parse side asked to strip the prose but it is kept: %r" % (tag, n, b.get("doc")))
    if " ".join((back.get("doc") or "").split()) != " ".join(case["doc"].split()):
        r.fail("header", "%s %r -> %r" % (tag, case["doc"], back.get("doc")))
    wr, gr = case["returns"], (back.get("returns") or {}).get("return_type")
    if p23:
        r.covered("P23")
        return
    if (wr is None) != (gr is None):
        r.fail("returns-presence", "%s want %r got %r text=%r" % (tag, wr, gr, ds[-200:]))
    elif wr is not None:
        if set(back["returns"]) != {"return_type"}:
            r.fail("returns-keys", "%s %r" % (tag, list(back["returns"])))
        if et and wr.get("typ") != gr.get("typ"):
            r.fail("returns-typ", "%s %r -> %r" % (tag, wr.get("typ"), gr.get("typ")))
        if normdoc(wr.get("doc")) != normdoc(gr.get("doc")):
            r.fail("returns-doc", "%s %r -> %r" % (tag, wr.get("doc"), gr.get("doc")))
        if "default" in gr and "default" not in wr:
            # P21: google/numpydoc force a default onto the return entry as soon as any parameter has one
            if is_open("P21") and style != "rest" and any("default" in p for _n, p in params):
                r.covered("P21")
            else:
                r.fail("returns-default-invented", "%s %r" % (tag, gr))


def oracle(case):
    r = Result()
    ir = None
    suffix = _suffix_legal(case)
    cells = case.get("cells") or CELLS
    for cell in cells:
        cell = tuple(cell)
        if cell[0] != "rest" and not suffix:
            continue
        check_cell(r, case, ir, cell)
    r.label(*gen_ir.labels_of(case))
    if any(not p.get("doc") for _n, p in case["params"]):
        r.label("undocumented-param")
    r.label("suffix-legal" if suffix else "non-suffix(rest only)")
    r.nontrivial = len(case["params"]) >= 2 and any("default" in p for _n, p in case["params"])
    return r


def layer_main(ctx):
    ctx.run_given("roundtrip", strategy(ctx), oracle, ctx.cfg["n"])


LAYERS = [("roundtrip", layer_main)]


def replay(case):
    return oracle(case)
