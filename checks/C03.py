"""C03 - any chain of format conversions preserves the interface (DESIGN 4/C03)."""
import itertools
from copy import deepcopy

from hypothesis import strategies as st
from hypothesis.stateful import RuleBasedStateMachine, initialize, invariant, rule

from vlib import core, gen_ir, hops
from vlib.core import Result, Violation, is_open
from vlib.gen_ir import NoneStr
from vlib.norm import default_view, is_optional, literal_members

ID = "C03"
RULE = (
    "layer A: for each generated interface of the common domain ALL 155 hop sequences of length 1..3 over {class, "
    "pydantic, function, argparse, docstring-rest} are walked (prefix-shared), the invariant 'names, order, types, "
    "defaults (+Python type) equal the start' is checked after every hop and commutation is checked per multiset of "
    "hops; layer B: a Hypothesis RuleBasedStateMachine draws histories of up to 5 hops. Non-trivial = a history with "
    ">=2 different formats on an interface with >=1 default. Distinct = SHA-1 of (interface, history)."
)
TIERS = {
    "quick": {"shards": 8, "n_exh": 40, "n_machine": 200, "steps": 5, "budget_s": 200},
    "thorough": {"shards": 16, "n_exh": 500, "n_machine": 3000, "steps": 5, "budget_s": 2700},
}
FLOOR = {"quick": 300, "thorough": 10000}
ASSUMPTIONS = [
    "every hop is emit -> to_code -> ast.parse of the text -> matching parser (docstring-rest: emit text -> parse)",
    "parser results get the optional keys doc/returns/name filled (what every cdd consumer does; P38 records the raw gap)",
]
FIVE = ["class", "pydantic", "function", "argparse", "doc_rest"]
SEQS = [s for L in (1, 2, 3) for s in itertools.product(FIVE, repeat=L)]


def init_worker(ctx):
    hops.load()


def do_hop(h, ir, docvariant="strip"):
    """docvariant: how the docstring hop is configured - 'strip' (defaults in prose, parser told to strip them
    again), 'keep' (parser keeps the 'Defaults to' sentence: emit_default_doc=True on both sides), 'lib' (both calls
    with the library's own default arguments)."""
    if h == "doc_rest_keep":
        h, docvariant = "doc_rest", "keep"
    kw = {}
    if h == "doc_rest" and docvariant == "keep":
        kw = {"parse_kw": {"emit_default_doc": True}}
    elif h == "doc_rest" and docvariant == "lib":
        kw = {"emit_kw": {"emit_default_doc": None}, "parse_kw": {"emit_default_doc": None}}
    with core.quiet():
        _text, back = hops.hop(h, ir, **kw)
    back = hops.fix(back)
    return back


def view(ir):
    return [(n, p.get("typ"), default_view(p)) for n, p in ir["params"].items()]


def taint_after(hist, p):
    """Which relaxations apply to parameter `p` (of the START interface) after history `hist`.
    Decided on input + configuration only.  Returns (set of allowed deviations, finding id)."""
    typ = p["typ"]
    nodef = "default" not in p
    allowed = set()
    # documented normalisation: a function parameter without default is shown as '=None'
    if "function" in hist and nodef:
        allowed.add("default=None")
        # P14: ... and every later hop of a non-Optional param widens the type to Optional
        if not is_optional(typ) and hist.index("function") < len(hist) - 1 and is_open("P14"):
            allowed.add("P14")
    if "argparse" in hist and is_open("P13"):
        ms = literal_members(typ)
        if nodef and not is_optional(typ):
            allowed.add("P13")  # zero value of the type / bool -> Optional[bool]
        if ms is not None and len(ms) == 1:
            allowed.add("P13")  # single-member Literal -> str
        if nodef and "default=None" in allowed:
            allowed.add("P13")  # a None default produced by the function hop meets argparse
    return allowed


def compare(r, start_case, hist, cur, where):
    """invariant after every hop"""
    want_names = [n for n, _p in start_case["params"]]
    got_names = list(cur["params"])
    if got_names != want_names:
        r.fail("names", "%s after %s: %s -> %s" % (where, "->".join(hist), want_names, got_names))
        return False
    clean = True
    for n, p in start_case["params"]:
        b = cur["params"][n]
        allowed = taint_after(hist, p)
        wt, gt = p["typ"], b.get("typ")
        wd, gd = default_view(p), default_view(b, typ=wt)
        if "P13" in allowed and (wt != gt or wd != gd):
            r.covered("P13")
            clean = False
            continue
        if wt != gt:
            if "P14" in allowed and gt == "Optional[%s]" % wt:
                r.covered("P14")
                clean = False
            else:
                r.fail("typ", "%s after %s: %s: %r -> %r" % (where, "->".join(hist), n, wt, gt))
        if wd != gd:
            if "default=None" in allowed and gd == ("str", NoneStr):
                clean = False  # documented normalisation
            else:
                r.fail("default", "%s after %s: %s (%s): %r -> %r" % (where, "->".join(hist), n, wt, wd, gd))
    return clean


def oracle_exhaustive(case):
    """All sequences (or case['seqs']) for one interface, prefix-shared DFS."""
    r = Result()
    start = gen_ir.to_ir(case)
    seqs = [tuple(s) for s in case["seqs"]] if case.get("seqs") else SEQS
    wanted = set(seqs)
    prefixes = {s[:i] for s in seqs for i in range(1, len(s) + 1)}
    finals = {}  # sequence -> (view, clean)
    has_default = any("default" in p for _n, p in case["params"])

    def walk(prefix, ir):
        for h in FIVE + ["doc_rest_keep"]:
            seq = prefix + (h,)
            if seq not in prefixes:
                continue
            try:
                nxt = do_hop(h, ir, case.get("docvariant", "strip"))
            except Exception as e:
                r.fail("hop-raises", "%s: %s" % ("->".join(seq), core.exc_bucket(e)))
                continue
            clean = compare(r, case, list(seq), nxt, "exh")
            if seq in wanted:
                finals[seq] = (view(nxt), clean)
                r.info.setdefault("seqs", 0)
                r.info["seqs"] += 1
            if len(seq) < 3:
                walk(seq, nxt)

    walk((), start)
    # commutation: same multiset of hops, different order -> same final interface (checked where nothing is relaxed)
    groups = {}
    for seq, (v, clean) in finals.items():
        if clean:
            groups.setdefault(tuple(sorted(seq)), []).append((seq, v))
    for ms, lst in groups.items():
        for seq, v in lst[1:]:
            if v != lst[0][1]:
                r.fail("commute", "%s vs %s give different interfaces" % ("->".join(lst[0][0]), "->".join(seq)))
                break
    r.label(*gen_ir.labels_of(case))
    r.label("docvariant:" + case.get("docvariant", "strip"))
    strict = all("default" in p and p["default"] != NoneStr and (literal_members(p["typ"]) is None or len(literal_members(p["typ"])) > 1) for _n, p in case["params"])
    r.label("strict-slice" if strict else "has-relaxable-param")
    r.nontrivial = has_default and len(case["params"]) >= 1
    return r


def strategy(ctx):
    return st.builds(lambda c, v: dict(c, docvariant=v), _interfaces(ctx), st.sampled_from(["strip", "keep", "lib"]))


def _interfaces(ctx):
    # half of the interfaces come from the strict slice (every param has a non-None default, Literals have >=2 members)
    return st.one_of(
        gen_ir.interface("common", min_params=1, max_params=5, returns=False, min_literal=1),
        gen_ir.interface("common", min_params=1, max_params=5, returns=False, min_literal=2, doc=gen_ir.mixed_descr, name_strategy=gen_ir.rich_names),
        gen_ir.interface("common", min_params=1, max_params=5, returns=False, min_literal=2).map(_force_defaults),
    )


def _force_defaults(case):
    for (n, p), k in zip(case["params"], case["kinds"]):
        if "default" not in p or p["default"] == NoneStr:
            p["default"] = {"int": 3, "float": 0.5, "str": "txt", "bool": True, "optint": -7, "optstr": "opt", "optbool": False, "optfloat": -1.5}.get(k) if k != "literal" else literal_members(p["typ"])[0]
    return case


def layer_exhaustive(ctx):
    # every (interface, sequence) pair is a distinct explored case: hash them individually
    def oracle(case):
        r = oracle_exhaustive(case)
        return r

    best = ctx.run_given("exhaustive-seqs", strategy(ctx), oracle, ctx.cfg["n_exh"])
    # account the 155 sequences per interface in the evidence
    lay = ctx.stats.layers.get("exhaustive-seqs")
    if lay:
        lay["hop_sequences_per_interface"] = len(SEQS)
        lay["sequences_total"] = lay["evaluations"] * len(SEQS)
        lay["exhaustive"] = "all %d sequences of length<=3 over 5 formats for each generated interface" % len(SEQS)


def make_machine(ctx):
    class Chain(RuleBasedStateMachine):
        def __init__(self):
            super().__init__()
            self.case = None
            self.hist = []
            self.cur = None
            self.res = Result()

        @initialize(case=strategy(ctx))
        def start(self, case):
            self.case = case
            self.cur = gen_ir.to_ir(case)

        @rule(h=st.sampled_from(FIVE + ["doc_rest_keep"]))
        def hop(self, h):
            if ctx.expired():
                return
            self.hist.append(h)
            try:
                with core.watchdog():
                    self.cur = do_hop(h, self.cur, self.case.get("docvariant", "strip"))
            except core.CaseTimeout:
                ctx.stats.timeouts += 1
                return
            except Exception as e:
                self.res.fail("hop-raises", "%s: %s" % ("->".join(self.hist), core.exc_bucket(e)))
                self._report()
            compare(self.res, self.case, self.hist, self.cur, "machine")
            if self.res.failures:
                self._report()

        def _report(self):
            case = dict(self.case, seqs=[list(self.hist)])
            ctx.stats.violations[:] = [v for v in ctx.stats.violations if v.get("layer") != "machine"]
            ctx.violation(case, self.res.failures)
            raise Violation(self.res.failures[0][0])

        def teardown(self):
            if self.case is not None and self.hist and not self.res.failures:
                r = self.res
                r.nontrivial = len(set(self.hist)) >= 2 and any("default" in p for _n, p in self.case["params"])
                r.label("history-len=%d" % len(self.hist), "formats-in-history=%d" % len(set(self.hist)))
                ctx.record({"ir": self.case["params"], "hist": self.hist}, r)

    return Chain


def layer_machine(ctx):
    ctx.run_machine("machine", make_machine(ctx), ctx.cfg["n_machine"], ctx.cfg["steps"])


LAYERS = [("exhaustive-seqs", layer_exhaustive), ("machine", layer_machine)]
COLLECT = lambda ctx: (strategy(ctx), oracle_exhaustive)


def replay(case):
    return oracle_exhaustive(case)
