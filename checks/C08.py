"""C08 - one conversion round reaches a fixpoint (DESIGN 4/C08)."""
from copy import deepcopy

from hypothesis import strategies as st

from vlib import core, gen_ir, hops
from vlib.core import Result, is_open
from vlib.gen_ir import NoneStr, TRIGGER_PHRASES, WORDS
from vlib.norm import is_optional

ID = "C08"
RULE = (
    "a case is one generated interface from the WILD profile (trigger words in descriptions, non-suffix defaults, "
    "hostile string defaults, unusual types) pushed through every applicable format {docstring rest/google/numpydoc, "
    "class, pydantic, function (annotations on/off), argparse, json_schema, sqlalchemy x3}: ir1 = round(x) is whatever "
    "it is; round(ir_n) must succeed and equal ir_n exactly for n = 1..3. Non-trivial = the first round really "
    "normalised something (ir1 != x) in at least one format. Distinct = SHA-1 of the interface."
)
TIERS = {"quick": {"shards": 8, "n": 350, "budget_s": 220}, "thorough": {"shards": 16, "n": 6000, "budget_s": 2700}}
FLOOR = {"quick": 150, "thorough": 5000}
REQUIRED_LABELS = {"quick": ["has-trigger", "non-suffix", "hostile-default", "round1-rejects", "of/or-between-ordinary-words", "of/or+Optional+None"], "thorough": []}
ASSUMPTIONS = [
    "ir equality is full dict equality on name-independent content: params (all keys except the extension key x_typ), doc, returns",
    "a first round that raises puts the case outside the property for that format (counted as round1-rejects)",
]
FORMATS = ["doc_rest", "doc_google", "doc_numpydoc", "class", "pydantic", "function", "funcdoc", "argparse", "json", "sqlalchemy", "sqlalchemy_table", "sqlalchemy_hybrid"]
JSON_OK = {"int", "float", "str", "bool", "dict", "list"}
HOSTILE = ["a.b", "", "x y", "it's", 'say "hi"', "`tick`", "5", "None", "Defaults to 3", "a: b", "(x)", "-", "1e5", "True", " lead"]


def init_worker(ctx):
    hops.load()


@st.composite
def wild(draw):
    suffix = draw(st.booleans())
    case = draw(gen_ir.interface("docstring", suffix=suffix, ret_default=True, max_params=6))
    feats = []
    for (_n, p), k in zip(case["params"], case["kinds"]):
        if draw(st.integers(0, 3)) == 0:
            ph = draw(st.sampled_from(TRIGGER_PHRASES + ["defaults to 10", "defaults to 'abc'", "defaults to True", "path", "a int/float", "the input/output", "(defaults to 10)", "(default: 'abc')", "(Defaults to True)"] + OF_OR_PHRASES))
            base = (p.get("doc") or "alpha").rstrip(".")
            shape = draw(st.sampled_from(["mid", "end-comma", "own-sentence", "start"]))
            p["doc"] = {"mid": "%s %s %s" % (base, ph, draw(st.sampled_from(WORDS))), "end-comma": "%s, %s" % (base, ph), "own-sentence": "%s. %s." % (base, ph[0].upper() + ph[1:]), "start": "%s %s" % (ph, base)}[shape]
            feats.append("has-trigger")
            feats.append("trigger-shape:" + shape)
            if ph in OF_OR_PHRASES:
                feats.append("of/or-between-ordinary-words")
                if p.get("typ") in ("int", "str", "float") and draw(st.booleans()):
                    p["typ"], p["default"] = "Optional[%s]" % p["typ"], NoneStr
                if (p.get("typ") or "").startswith("Optional[") and p.get("default") in (None, NoneStr):
                    feats.append("of/or+Optional+None")
        if k == "str" and draw(st.integers(0, 3)) == 0:
            p["default"] = draw(st.sampled_from(HOSTILE))
            feats.append("hostile-default")
        if draw(st.integers(0, 12)) == 0:
            p["typ"] = draw(st.sampled_from(["Dict[str, int]", "Tuple[int, ...]", "Optional[Union[int, str]]", "Callable[[int], str]", "object", "Optional[List[str]]", "complex"]))
            p.pop("default", None)
            feats.append("unusual-type")
        if draw(st.integers(0, 15)) == 0:
            p.pop("doc", None)
            feats.append("no-doc")
        elif draw(st.integers(0, 9)) == 0 and p.get("doc"):
            p["doc"] = p["doc"].rstrip(".") + draw(st.sampled_from(["..", "...", ", etc..", " ...", "!", "?", ":", ";", ")", "...)"]))
            feats.append("odd-ending")
    seen = legal = True
    seen = False
    for _n, p in case["params"]:  # recomputed on the FINAL parameter list (the mutations above may drop defaults)
        if "default" in p:
            seen = True
        elif seen:
            legal = False
    if not legal:
        feats.append("non-suffix")
    case["feats"] = sorted(set(feats))
    return case


def strategy(ctx):
    return wild()


def one_round(fmt, ir):
    ir = deepcopy(ir)
    if fmt == "funcdoc":
        _t, back = hops.hop("function", ir, emit_kw={"type_annotations": False})
    else:
        _t, back = hops.hop(fmt, ir)
    return hops.fix(back)


def _v(v):
    import ast

    return "AST:" + ast.dump(v) if isinstance(v, ast.AST) else v


def strip(ir):
    """what is compared between rounds: everything the IR carries except the extension key (AST values by dump)"""
    return {
        "doc": ir.get("doc"),
        "params": [(n, {k: _v(v) for k, v in p.items() if k != "x_typ"}) for n, p in (ir.get("params") or {}).items()],
        "returns": None if not ir.get("returns") else [(n, {k: _v(v) for k, v in p.items()}) for n, p in ir["returns"].items()],
    }


def applicable(fmt, case):
    if fmt in ("doc_google", "doc_numpydoc", "function", "funcdoc", "class", "pydantic", "argparse"):
        pass
    if fmt in ("doc_google", "doc_numpydoc") and "non-suffix" in case["feats"]:
        return False  # quantifier: Google/NumPy on the signature-legal domain
    if fmt in ("function", "funcdoc") and "non-suffix" in case["feats"]:
        return False  # not a legal Python signature
    if fmt == "json":
        for _n, p in case["params"]:
            t = p["typ"]
            inner = t[9:-1] if is_optional(t) else t
            if inner not in JSON_OK and not inner.startswith("Literal["):
                return False
    return True


def diff_keys(a, b):
    out = []
    if [n for n, _ in a["params"]] != [n for n, _ in b["params"]]:
        out.append("names")
    else:
        for (n, p), (_m, q) in zip(a["params"], b["params"]):
            for k in sorted(set(p) | set(q), key=str):
                if p.get(k, "<absent>") != q.get(k, "<absent>"):
                    out.append("param.%s" % k)
    for k in ("doc", "returns"):
        if a[k] != b[k]:
            out.append(k)
    return sorted(set(out))


PLAIN = __import__("re").compile(r"^[A-Za-z][A-Za-z0-9_/~-]{0,10}$")
SQL_OK = {"int", "float", "str", "bool", "dict"}


# ` of ` / ` or ` between ORDINARY words: the ad-hoc type guesser builds a `Union[...]` of non-types from them, the guess
# is discarded - a path of its own through the type/default helper (none of these is a TYPE_TRIGGER)
OF_OR_PHRASES = ["size of each batch", "height or width", "name of the model", "kind or shape", "rate of decay per step"]
DEFAULT_FRAGMENT = __import__("re").compile(r"[Dd]efaults?(?::| to| is)\s+\S+")
TYPE_TRIGGERS = ("number", "whether", "list of", "string or", "path", "true if", "if true", "optional", "dictionary of", "int64", "one of", "a str", "int or float", "`np` or `tf`")
DOC_FORMATS = ("doc_rest", "doc_google", "doc_numpydoc", "class", "pydantic", "function", "funcdoc", "argparse")


def param_taints(p, fmt=None, forced_default=False):
    """relaxable classes of ONE parameter IN ONE FORMAT, decided on the input alone -> {finding id}.
    P47 is narrow (measured on the unchanged tree, see DESIGN 8.7): a description is only unstable when
      U1 a `default(s) to|is|: X` fragment stands at the very start or is followed by further words of the same
         sentence (the scanner then takes `X word` as the default) - formats that carry the description as prose;
      U2 a type-hint trigger word meets an EXPLICIT default (the prose-derived type re-types the default one round
         late; with a negative number the function emitters then write un-parseable code);
      U3 `dictionary of` - class / pydantic (the probe of the guessed type raises on the second round);
      U4 a default fragment on a parameter whose declared type is not int / float / str (Literal, bool, List ...);
      U5 a default fragment whose value is glued to the odd ending `!` or `...)` (the other eight endings are stable);
      U6 a slash inside the second word; U7 a parenthesised fragment `(defaults to X)` (any position).
    Default fragments at the end of a sentence / after a comma and trigger words without a default are STRICT."""
    import re

    t = set()
    doc = p.get("doc") or ""
    low = doc.lower()
    if is_open("P47") and fmt in DOC_FORMATS or (is_open("P47") and fmt is None):
        m = DEFAULT_FRAGMENT.search(doc)
        if m and (m.start() == 0 or re.match(r"\s+\w", doc[m.end():])):
            t.add("P47")
        if m and (re.search(r"(!|\.\.\.\))$", m.group(0)) or (re.search(r"[Dd]efaults?:\s+[^(]*\)$", m.group(0)))):  # ... or, for the colon form, to an unbalanced `)` (25 000-case calibration)
            t.add("P47")  # U5 (measured): the fragment's value is glued to `!` or `...)` - of the ten odd endings only these two
        typ = p.get("typ") or ""
        inner = typ[9:-1] if is_optional(typ) else typ
        if m and inner not in ("int", "float", "str"):
            t.add("P47")  # U4: the fragment's value meets a declared type it cannot belong to (Literal, bool, List ...)
        if any(tr in low for tr in TYPE_TRIGGERS) and ("default" in p or forced_default):
            t.add("P47")
        if "dictionary of" in low and fmt in (None, "class", "pydantic"):
            t.add("P47")
        pm = re.search(r"\([Dd]efaults?(?::| to| is)\s+[^)]*\)", doc)
        if pm:
            # U7: a PARENTHESISED fragment `(defaults to X)` / `(default: 'x')`.  Measured over 3 phrases x 4 positions x
            # 7 endings x 7 (type, default) pairs: unstable in most cells (the scanner extracts '' or the value one round
            # late; at the very start the parameter also changes place; in google / numpydoc the forced defaults of the
            # entries behind it come and go), so the whole phrase shape is relaxed - un-parenthesised fragments are not.
            t.update(("P47", "P47:spill"))
            if pm.start() == 0:
                t.add("P47:order")
        if gen_ir.second_word_slash(doc):
            t.add("P47")  # U6: `word word int/float ...` - the ad-hoc slash syntax re-types the parameter (Union[int,float])
    d = p.get("default")
    if is_open("P12") and isinstance(d, str) and d != NoneStr and not d.startswith("(") and not gen_ir.is_plain_str(d):
        t.add("P12")  # hostile string default ('' / dots / quotes / leading blank / 'None' / digits ...)
    if is_open("P12") and isinstance(d, str) and DEFAULT_FRAGMENT.search(d):
        t.add("P12")  # ... or a string default that itself contains a `Defaults to X` fragment (seed 1 after the round-9 widening: 'Defaults to 3' comes back as '3"' and is lost one round later)
    return t


def sql_unmapped(case):
    for _n, p in case["params"]:
        t = p["typ"]
        inner = t[9:-1] if is_optional(t) else t
        if inner.startswith("Literal["):
            from vlib.norm import literal_members

            if len(literal_members(inner) or []) < 2:
                return True  # single-member Literal has no Enum mapping either
        elif inner not in SQL_OK:
            return True
    return False


def _sql_mapped_only(case):
    """the case restricted to the columns whose type has a SQL mapping (P29 concerns the others)"""
    keep = [i for i, (n, p) in enumerate(case["params"]) if not sql_unmapped({"params": [[n, p]]})]
    return dict(case, params=[case["params"][i] for i in keep], kinds=[case["kinds"][i] for i in keep])


def oracle(case):
    r = Result()
    full_case, full_x = case, gen_ir.to_ir(case)
    normalised = False
    for fmt in case.get("formats") or FORMATS:
        case, x = full_case, full_x
        if fmt.startswith("sqlalchemy") and sql_unmapped(case) and is_open("P29"):
            # P29: a column of unmapped type yields a param entry with the key None that drifts every round.  The
            # finding concerns THOSE columns: the fixpoint of the remaining ones is still checked (projection)
            r.covered("P29")
            case = _sql_mapped_only(full_case)
            if not case["params"]:
                continue
            x = gen_ir.to_ir(case)
            r.label("sqlalchemy-on-mapped-columns-only")
        taints, seen_default = {}, False
        for n, p in case["params"]:
            # google / numpydoc force a zero-value default onto every entry after the first defaulted one (P61's
            # mechanism): there a trigger word meets a default even when the parameter itself declares none (U2)
            taints[n] = param_taints(p, fmt, forced_default=seen_default and fmt in ("doc_google", "doc_numpydoc"))
            seen_default = seen_default or "default" in p or bool(DEFAULT_FRAGMENT.search(p.get("doc") or ""))
        any_taint = set().union(*taints.values()) if taints else set()
        if not applicable(fmt, case):
            r.label("n/a:" + fmt)
            continue
        if fmt in ("doc_google", "doc_numpydoc") and case["returns"] is not None and not case["params"] and is_open("P22"):
            r.covered("P22")
            continue
        try:
            with core.quiet():
                cur = one_round(fmt, x)
        except Exception as e:
            r.label("round1-rejects")
            r.exc.append("%s round1 %s" % (fmt, core.exc_bucket(e)))
            continue
        if strip(cur) != strip(hops.fix(x)):
            normalised = True
        for rnd in (2, 3, 4):
            try:
                with core.quiet():
                    nxt = one_round(fmt, cur)
            except Exception as e:
                if any_taint - {"P47:order", "P47:spill"}:
                    for f in sorted(any_taint - {"P47:order", "P47:spill"}):
                        r.covered(f)
                    break
                r.fail("round-raises[%s]" % fmt, "[%s] round %d raises %s on its own output" % (fmt, rnd, core.exc_bucket(e)))
                break
            a, b = strip(cur), strip(nxt)
            if a != b:
                t2 = taints
                if fmt in ("doc_google", "doc_numpydoc"):
                    # a 'default(s) to' fragment inside a description invents a default on round 1; every later
                    # parameter without default is then in non-suffix position (outside the Google/NumPy domain)
                    import re

                    t2, spill = {}, False
                    for n, p in case["params"]:
                        t2[n] = set(taints[n])
                        if spill and ("default" not in p or "P47:spill" in set().union(*taints.values())):
                            t2[n].add("P47")
                        if DEFAULT_FRAGMENT.search(p.get("doc") or "") and "default" not in p:
                            spill = True  # (stable or not) the fragment gives this parameter a default on round 1
                        if "P47:spill" in taints[n]:
                            spill = True  # U8: the extracted '' comes and goes, and with it the forced defaults behind it
                bad = _uncovered(r, fmt, case, t2, a, b)
                if bad:
                    r.fail("not-fixpoint[%s]%s" % (fmt, bad[0]), "[%s] round %d: %s" % (fmt, rnd, bad[1]))
                break
            cur = nxt
    case = full_case
    r.label(*case["feats"])
    r.label(*gen_ir.labels_of(case))
    r.label("tainted-params=%d" % sum(bool(param_taints(p)) for _n, p in case["params"]))
    r.nontrivial = normalised
    return r


def _uncovered(r, fmt, case, taints, a, b):
    """-> None when every difference lies in a relaxed (parameter, finding) class, else (tag, detail)"""
    na, nb = [n for n, _ in a["params"]], [n for n, _ in b["params"]]
    if na != nb:
        if sorted(na) == sorted(nb) and any("P47:order" in t for t in taints.values()) and fmt in ("class", "pydantic", "function", "funcdoc"):
            r.covered("P47")
            return None
        return ("names", "%s -> %s" % (na, nb))
    for (n, p), (_m, q) in zip(a["params"], b["params"]):
        if p != q:
            t = taints.get(n, set())
            if t - {"P47:order", "P47:spill"}:
                for f in sorted(t - {"P47:order", "P47:spill"}):
                    r.covered(f)
                continue
            keys = sorted((k for k in set(p) | set(q) if p.get(k, "<absent>") != q.get(k, "<absent>")), key=str)
            return ("param.%s" % ",".join(map(str, keys)), "%s: %r -> %r" % (n, p, q))
    if a["returns"] != b["returns"]:
        if fmt in ("doc_google", "doc_numpydoc") and is_open("P21"):
            r.covered("P21")
        else:
            return ("returns", "%r -> %r" % (a["returns"], b["returns"]))
    if a["doc"] != b["doc"]:
        if fmt == "sqlalchemy" and is_open("P46"):
            r.covered("P46")
        else:
            return ("doc", "%r -> %r" % (a["doc"], b["doc"]))
    return None


def layer_main(ctx):
    ctx.run_given("fixpoint", strategy(ctx), oracle, ctx.cfg["n"])


LAYERS = [("fixpoint", layer_main)]


def replay(case):
    return oracle(case)
