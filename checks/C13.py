"""C13 - sync_properties updates exactly the selected property (DESIGN 4/C13)."""
import ast
import copy
import os
import shutil
import tempfile

from hypothesis import strategies as st

from vlib import core
from vlib.core import Result
from vlib.gen_ir import names

ID = "C13"
RULE = (
    "a case is an input module and an output module (classes with annotated attributes, functions / methods with 1..5 "
    "parameters with/without defaults and annotations, self/cls first, keyword-only parameters) plus a valid "
    "(input-param, output-param) pair of dotted paths chosen BY CONSTRUCTION from the generated modules (attr->attr, "
    "param->param, attr->param), an optional wrap template, and --input-eval on/off (eval mode reads a top-level tuple "
    "of our own string literals). Non-trivial = the target is not the first parameter, or its function has defaults, "
    "or a wrap is used. Distinct = SHA-1 of the whole case."
)
TIERS = {"quick": {"shards": 8, "n": 700, "budget_s": 200}, "thorough": {"shards": 16, "n": 6000, "budget_s": 2700}}
FLOOR = {"quick": 200, "thorough": 10000}
REQUIRED_LABELS = {"quick": ["same-name-pair", "multi-pair:same-function", "pair:attr->attr", "pair:arg->arg", "pair:arg->kwarg", "pair:attr->arg", "wrap", "eval", "target-not-first", "target-after-self", "via-cli", "via-api", "duplicate-definition:plain", "duplicate-definition:try-except"], "thorough": []}
ASSUMPTIONS = [
    "the new name never collides with another parameter of the target function (a collision would be the generator's duplicate, not cdd's)",
    "paths cdd cannot resolve raise; the oracle for a raise is 'output and input files byte-identical'",
]

scal = st.sampled_from(["int", "str", "float", "bool", "Optional[int]", "List[str]", "Literal['a', 'b']", "float | None", "int | List[int]", "np.ndarray", "Dict[str, int]", "'Forward'"])
lit = st.sampled_from(["1", "-2", "'s'", "None", "True", "0.5", "(1, 2)"])


def init_worker(ctx):
    global cdd
    import cdd.__main__  # noqa: F401
    import cdd.compound.sync_properties


@st.composite
def func(draw, method):
    n = draw(st.integers(1, 5))
    ns = draw(st.lists(names, min_size=n, max_size=n, unique=True))
    ps, seen = [], False
    for x in ns:
        ann = draw(st.one_of(st.none(), scal))
        d = draw(st.one_of(st.none(), lit))
        if d is not None:
            seen = True
        elif seen:
            d = "None"
        ps.append([x, ann, d])
    nk = draw(st.integers(0, 2))
    ks = [[x, draw(st.one_of(st.none(), scal)), draw(st.one_of(st.none(), lit))] for x in draw(st.lists(names.filter(lambda s: s not in ns), min_size=nk, max_size=nk, unique=True))]
    first = draw(st.sampled_from(["self", "cls"])) if method else None

    def fmt(p):
        return p[0] + (": " + p[1] if p[1] else "") + ((" = " if p[1] else "=") + p[2] if p[2] is not None else "")

    args = ([first] if first else []) + [fmt(p) for p in ps] + (["*"] + [fmt(k) for k in ks] if ks else [])
    return draw(names), args, ps, ks, first


@st.composite
def mod(draw, with_const=False):
    lines = ["from typing import *", ""]
    paths = []  # [dotted, kind, (name, ann, default), info]
    if with_const:
        ms = draw(st.lists(st.from_regex(r"[a-z]{1,5}", fullmatch=True), min_size=1, max_size=4, unique=True))
        lines += ["OPTS = %r" % (tuple(ms),), ""]
        paths.append(["OPTS", "const", ["OPTS", None, None], {"members": ms}])
    used = set()
    for _ in range(draw(st.integers(1, 3))):
        if draw(st.booleans()):
            fname, args, ps, ks, _first = draw(func(False))
            if fname in used:
                continue
            used.add(fname)
            lines += ["def %s(%s):" % (fname, ", ".join(args)), "    return %s" % draw(lit), ""]
            allnames = [p[0] for p in ps + ks]
            hasdef = any(p[2] is not None for p in ps + ks)
            paths += [[fname + "." + p[0], "arg", p, {"idx": i, "names": allnames, "hasdef": hasdef, "first": None}] for i, p in enumerate(ps)]
            paths += [[fname + "." + k[0], "kwarg", k, {"idx": i, "names": allnames, "hasdef": hasdef, "first": None}] for i, k in enumerate(ks)]
        else:
            cname = draw(names).capitalize()
            if cname in used:
                continue
            used.add(cname)
            lines.append("class %s(object):" % cname)
            attrs = draw(st.lists(st.tuples(names, scal, lit), min_size=1, max_size=3, unique_by=lambda t: t[0]))
            for i, a in enumerate(attrs):
                lines.append("    %s: %s = %s" % a)
                paths.append([cname + "." + a[0], "attr", list(a), {"idx": i, "names": [x[0] for x in attrs], "hasdef": True, "first": None}])
            fname, args, ps, ks, first = draw(func(True))
            if fname in [a[0] for a in attrs]:
                fname += "_m"
            lines += ["", "    def %s(%s):" % (fname, ", ".join(args)), "        return %s" % draw(lit), ""]
            allnames = [p[0] for p in ps + ks]
            hasdef = any(p[2] is not None for p in ps + ks)
            paths += [[cname + "." + fname + "." + p[0], "arg", p, {"idx": i, "names": allnames, "hasdef": hasdef, "first": first}] for i, p in enumerate(ps)]
            paths += [[cname + "." + fname + "." + k[0], "kwarg", k, {"idx": i, "names": allnames, "hasdef": hasdef, "first": first}] for i, k in enumerate(ks)]
    return "\n".join(lines) + "\n", paths


@st.composite
def case_strategy(draw):
    ev = draw(st.integers(0, 4)) == 0
    isrc, ipaths = draw(mod(with_const=ev))
    osrc, opaths = draw(mod())
    forced = None
    if not ev and draw(st.integers(0, 2)) == 0:
        # the most natural use: the input property and the target parameter have the SAME name.  A fresh class holding
        # an attribute of the target's name is appended to the input module (nothing existing is renamed).
        tgt_args = [p for p in opaths if p[1] in ("arg", "kwarg")]
        if tgt_args:
            t = draw(st.sampled_from(tgt_args))
            ann, val = draw(scal), draw(st.sampled_from(["1", "-2", "'s'", "True", "0.5", "(1, 2)"]))
            cname = "Samename%d" % draw(st.integers(0, 9))
            if ("class %s(" % cname) not in isrc:
                isrc += "class %s(object):\n    %s: %s = %s\n" % (cname, t[2][0], ann, val)
                forced = ([cname + "." + t[2][0], "attr", [t[2][0], ann, val], {"idx": 0, "names": [t[2][0]], "hasdef": True, "first": None}], t)
    if ev:
        ip = ipaths[0]
        op = draw(st.sampled_from(opaths))
        wrap = None
    else:
        ipaths = [p for p in ipaths if p[1] != "const"]
        op = draw(st.sampled_from(opaths))
        # valid pairs: attr->attr, arg/kwarg->arg/kwarg, attr->arg/kwarg; the new name must not collide in the target
        cands = [p for p in ipaths if not (op[1] == "attr" and p[1] != "attr") and (p[2][0] == op[2][0] or p[2][0] not in op[3]["names"]) and p[2][0] not in ("self", "cls")]
        ip = draw(st.sampled_from(cands)) if cands else None
        if forced is not None:
            ip, op = forced
        wrap = draw(st.sampled_from([None, None, "Optional[{output_param}]", "Union[{output_param}, str]"]))
    dup = None
    if op is not None and op[1] == "attr" and draw(st.integers(0, 2)) == 0:
        # the output module defines the target's class a second time (compat idiom `try: ... except ImportError:
        # class C ...`, or a plain later re-definition): both definitions answer to the same dotted path, the
        # first one is the selected location, the other one is "every other definition" and must stay as it is
        cname = op[0].split(".")[0]
        attrs = [q for q in opaths if q[1] == "attr" and q[0].split(".")[0] == cname]
        body = ["    %s: %s = %s" % (q[2][0], q[2][1], q[2][2]) for q in attrs]
        dup = draw(st.sampled_from(["plain", "try-except"]))
        if dup == "plain":
            osrc += "\n\nclass %s(object):\n%s\n" % (cname, "\n".join(body))
        else:
            osrc += "\n\ntry:\n    import json\nexcept ImportError:\n\n    class %s(object):\n%s\n" % (cname, "\n".join("    " + b for b in body))
    return {"isrc": isrc, "osrc": osrc, "ip": ip, "op": op, "wrap": wrap, "eval": ev, "cli": draw(st.integers(0, 2)) == 0, "dup": dup}


def strategy(ctx):
    return case_strategy().filter(lambda c: c["ip"] is not None and (c["op"][1] != "attr" or c["ip"][1] in ("attr", "const")))


def call_sync(cli, ev, i, input_params, o, output_params, wrap):
    """the function itself, or the `python -m cdd sync_properties` command line (same process)"""
    if not cli:
        return cdd.compound.sync_properties.sync_properties(input_eval=ev, input_filename=i, input_params=input_params, output_filename=o, output_params=output_params, output_param_wrap=wrap)
    argv = ["sync_properties", "--input-filename", i, "--output-filename", o]
    for p in input_params:
        argv += ["--input-param", p]
    for p in output_params:
        argv += ["--output-param", p]
    if ev:
        argv.append("--input-eval")
    if wrap:
        argv += ["--output-param-wrap", wrap]
    return cdd.__main__.main(argv)


def mask(tree, dotted):
    """-> (dump of the tree with the target node masked, the target node)"""
    parts = dotted.split(".")
    tree = copy.deepcopy(tree)
    found = []

    def find(body, parts):
        for n in body:
            if isinstance(n, (ast.FunctionDef, ast.ClassDef)) and n.name == parts[0]:
                if isinstance(n, ast.ClassDef):
                    if len(parts) == 2:
                        for i, b in enumerate(n.body):
                            if isinstance(b, ast.AnnAssign) and isinstance(b.target, ast.Name) and b.target.id == parts[1]:
                                found.append(b)
                                n.body[i] = ast.Pass()
                                return
                    return find(n.body, parts[1:])
                for lst, dl in ((n.args.args, n.args.defaults), (n.args.kwonlyargs, n.args.kw_defaults)):
                    for i, a in enumerate(lst):
                        if a.arg == parts[1]:
                            found.append(a)
                            lst[i] = ast.arg(arg="__MASK__", annotation=None)
                            # the selected parameter's OWN default belongs to the selected location (an input class
                            # attribute of the same name carries its value across by design); it is compared separately
                            j = i - (len(lst) - len(dl))
                            if 0 <= j < len(dl) and dl[j] is not None:
                                found.append(dl[j])
                                dl[j] = ast.Constant(value="__MASKED_DEFAULT__")
                            return

    find(tree.body, parts)
    return ast.dump(tree), (found[0] if found else None), (found[1] if len(found) > 1 else None)


def oracle(case):
    r = Result()
    ip, op, wrap, ev = case["ip"], case["op"], case["wrap"], case["eval"]
    pair = "%s->%s" % (ip[1], op[1])
    r.label("pair:" + pair)
    info = op[3]
    if wrap:
        r.label("wrap")
    if ev:
        r.label("eval")
    r.label("via-cli" if case.get("cli") else "via-api")
    if op[1] != "attr" and info["idx"] > 0:
        r.label("target-not-first")
    if info.get("first"):
        r.label("target-after-self")
    if not ev and ip[2][0] == op[2][0]:
        r.label("same-name-pair")
    if case.get("dup"):
        r.label("duplicate-definition:" + case["dup"])
    d = tempfile.mkdtemp(prefix="c13_", dir="/dev/shm" if os.path.isdir("/dev/shm") else None)
    try:
        i, o = os.path.join(d, "i.py"), os.path.join(d, "o.py")
        with open(i, "w") as f:
            f.write(case["isrc"])
        with open(o, "w") as f:
            f.write(case["osrc"])
        raised = None
        try:
            with core.quiet():
                call_sync(case.get("cli"), ev, i, [ip[0]], o, [op[0]], wrap)
        except BaseException as e:
            if isinstance(e, (core.CaseTimeout, KeyboardInterrupt)):
                raise
            raised = e
        res = open(o).read()
        if open(i).read() != case["isrc"]:
            r.fail("input-modified", "the input file was rewritten")
        if raised is not None:
            r.exc.append("%s %s" % (pair, core.exc_bucket(raised)))
            r.label("rejected")
            if res != case["osrc"]:
                r.fail("raise-not-atomic", "%s raised %s but the output file changed" % (pair, core.exc_bucket(raised)))
            return r
    finally:
        shutil.rmtree(d, ignore_errors=True)
    try:
        rt = ast.parse(res)
    except SyntaxError as e:
        r.fail("output-not-python", str(e))
        return r
    before, _tb, d_before = mask(ast.parse(case["osrc"]), op[0])
    new_name = op[0].split(".")[-1] if ev else ip[0].split(".")[-1]
    after, target, d_after = mask(rt, ".".join(op[0].split(".")[:-1] + [new_name]))
    if target is None:
        r.fail("target-missing", "no %r at %s after the run:\n%s" % (new_name, ".".join(op[0].split(".")[:-1]), res[:400]))
        return r
    if before != after:
        r.fail("other-nodes-changed", "%s (%s -> %s): something besides the selected location changed: %s" % (pair, ip[0], op[0], _diff(before, after)))
    if op[1] != "attr":
        db = ast.dump(d_before) if d_before is not None else None
        da = ast.dump(d_after) if d_after is not None else None
        allowed = {db}
        if ip[1] == "attr" and ip[2][2] is not None and db is not None:
            allowed.add(ast.dump(ast.parse(ip[2][2]).body[0].value))
        if da not in allowed:
            r.fail("target-default", "%s: the selected parameter's default was %s and is now %s" % (pair, db, da))
    got_ann = ast.unparse(target.annotation) if getattr(target, "annotation", None) is not None else None
    if ev:
        want = "Literal[%s]" % ", ".join(repr(m) for m in ip[3]["members"])
        if got_ann is None or ast.dump(ast.parse(got_ann)) != ast.dump(ast.parse(want)):
            r.fail("eval-annotation", "wanted %s got %s" % (want, got_ann))
    else:
        want_ann = ip[2][1]
        if want_ann and wrap:
            want_ann = wrap.format(output_param=want_ann)
        if want_ann is not None:
            if got_ann is None or ast.dump(ast.parse(got_ann)) != ast.dump(ast.parse(want_ann)):
                r.fail("annotation", "%s: wanted %s got %s" % (pair, want_ann, got_ann))
        elif got_ann is not None:
            r.fail("annotation-invented", "%s: the input has no annotation, the output got %s" % (pair, got_ann))
    r.nontrivial = (op[1] != "attr" and info["idx"] > 0) or info["hasdef"] or bool(wrap)
    return r


def _diff(a, b):
    i = 0
    while i < min(len(a), len(b)) and a[i] == b[i]:
        i += 1
    return "...%s... vs ...%s..." % (a[max(0, i - 50) : i + 70], b[max(0, i - 50) : i + 70])


def layer_main(ctx):
    ctx.run_given("pairs", strategy(ctx), oracle, ctx.cfg["n"])


# ---- metamorphic layer: ONE call with two (input, output) pairs == two consecutive single-pair calls
@st.composite
def multi_strategy(draw):
    ev = draw(st.integers(0, 3)) == 0
    isrc, ipaths = draw(mod(with_const=ev))
    osrc, opaths = draw(mod())
    ins = [p for p in ipaths if p[1] == ("const" if ev else p[1]) and (ev or p[1] != "const")]
    if ev:
        ins = [ipaths[0], ipaths[0]]
    pairs = []
    used_targets, new_names = set(), {}
    for _ in range(2):
        op = draw(st.sampled_from(opaths))
        if op[0] in used_targets:
            continue
        scope = op[0].rsplit(".", 1)[0]
        cands = [p for p in ins if (ev or not (op[1] == "attr" and p[1] != "attr")) and (ev or p[2][0] == op[2][0] or (p[2][0] not in op[3]["names"] and p[2][0] not in new_names.get(scope, ()))) and p[2][0] not in ("self", "cls")]
        if not cands:
            continue
        ip = draw(st.sampled_from(cands))
        pairs.append([ip, op])
        used_targets.add(op[0])
        if not ev:
            new_names.setdefault(scope, set()).add(ip[2][0])
    return {"isrc": isrc, "osrc": osrc, "pairs": pairs, "eval": ev, "wrap": None if ev else draw(st.sampled_from([None, None, "Optional[{output_param}]"])), "multi": True, "cli": draw(st.integers(0, 2)) == 0}


def _run(case, d, pairs_list, tag):
    i, o = os.path.join(d, "i_%s.py" % tag), os.path.join(d, "o_%s.py" % tag)
    open(i, "w").write(case["isrc"])
    open(o, "w").write(case["osrc"])
    for pairs in pairs_list:
        try:
            with core.quiet():
                call_sync(case.get("cli"), case["eval"], i, [p[0][0] for p in pairs], o, [p[1][0] for p in pairs], case["wrap"])
        except BaseException as e:
            if isinstance(e, (core.CaseTimeout, KeyboardInterrupt)):
                raise
            return e, open(o).read()
    return None, open(o).read()


def oracle_multi(case):
    r = Result()
    r.label("multi-pair", "pairs=%d" % len(case["pairs"]))
    if case["eval"]:
        r.label("eval")
    if len(case["pairs"]) < 2:
        return r
    same_fn = case["pairs"][0][1][0].rsplit(".", 1)[0] == case["pairs"][1][1][0].rsplit(".", 1)[0]
    if same_fn:
        r.label("multi-pair:same-function")
    d = tempfile.mkdtemp(prefix="c13m_", dir="/dev/shm" if os.path.isdir("/dev/shm") else None)
    try:
        e_seq, out_seq = _run(case, d, [[case["pairs"][0]], [case["pairs"][1]]], "seq")
        if e_seq is not None:
            r.label("rejected")
            r.exc.append("sequential %s" % core.exc_bucket(e_seq))
            return r
        e_one, out_one = _run(case, d, [case["pairs"]], "one")
        if e_one is not None:
            r.fail("multi-pair-raises", "each pair succeeds on its own (%s then %s) but the single call with both raises %s" % (case["pairs"][0][1][0], case["pairs"][1][1][0], core.exc_bucket(e_one)))
            if out_one != case["osrc"]:
                r.fail("raise-not-atomic", "... and the output file changed")
            return r
        try:
            a, b = ast.dump(ast.parse(out_seq)), ast.dump(ast.parse(out_one))
        except SyntaxError as e:
            r.fail("output-not-python", str(e))
            return r
        if a != b and case["wrap"] and case["pairs"][0][0][0] == case["pairs"][1][0][0] and core.is_open("P59"):
            r.covered("P59")  # the wrap rewrites the INPUT node in place: its second use is wrapped twice
        elif a != b and case["pairs"][1][1][0] == case["pairs"][0][0][0] and core.is_open("P64"):
            r.covered("P64")  # the node copied from the input keeps the input's location and is hit by the second pair
        elif a != b:
            r.fail("multi-pair-differs", "one call with both pairs gives another file than two consecutive calls: %s" % _diff(a, b))
        r.nontrivial = True
    finally:
        shutil.rmtree(d, ignore_errors=True)
    return r


def layer_multi(ctx):
    ctx.run_given("multi-pair", multi_strategy(), oracle_multi, max(20, ctx.cfg["n"] // 3))


LAYERS = [("pairs", layer_main), ("multi-pair", layer_multi)]


def replay(case):
    return oracle_multi(case) if case.get("multi") else oracle(case)
