"""C19 - gen writes a valid module that exports exactly what it generated (DESIGN 4/C19)."""
import ast
import json
import os
import shutil
import tempfile

from hypothesis import strategies as st

from vlib import core, gen_ir, hops
from vlib.core import Result, is_open
from vlib.norm import default_view, is_optional, literal_members

ID = "C19"
RULE = (
    "a case is an input module with 1..5 symbols (classes / functions / argparse functions emitted from generated "
    "interfaces; or a JSON-schema file) x parse kind explicit|infer x emit kind over the eight kinds x name template "
    "{name}|{name}Config|Gen{name} x --emit-and-infer-imports on/off x --prepend/--imports-from-file present/absent "
    "x output file absent/present, run through `cdd.__main__.main(['gen', ...])`. Non-trivial = >=2 symbols and a "
    "template other than {name}. Distinct = SHA-1 of the case."
)
TIERS = {"quick": {"shards": 8, "n": 160, "budget_s": 220}, "thorough": {"shards": 16, "n": 2000, "budget_s": 2700}}
FLOOR = {"quick": 60, "thorough": 4000}
REQUIRED_LABELS = {"quick": ["mixed-kinds-in-one-module", "in:class", "in:function", "in:argparse", "in:json", "in:dir", "emit:class", "emit:function", "emit:argparse", "emit:pydantic", "emit:json_schema", "emit:sqlalchemy", "existing-output", "infer-imports", "prepend", "bases:mixins-first"], "thorough": []}
ASSUMPTIONS = [
    "input symbols are produced by cdd's own emitters from generated interfaces of the common domain (round-trip clean by C02)",
    "SQLAlchemy-class and Table inputs are outside the generated domain (finding P37)",
]
EMITS = ["argparse", "class", "function", "json_schema", "pydantic", "sqlalchemy", "sqlalchemy_hybrid", "sqlalchemy_table"]
TPLS = ["{name}", "{name}Config", "Gen{name}"]
TYPING_ALL = set(__import__("typing").__all__)


def init_worker(ctx):
    global cdd
    cdd = hops.load()["cdd"]


@st.composite
def case_strategy(draw):
    n = draw(st.integers(1, 5))
    # symbol names: CamelCase-ish and plain lower-case ones (functions are usually lower-case, often very short);
    # `infer` itself is the tool's own keyword for "no explicit name" and is left out
    snames = draw(st.lists(st.one_of(gen_ir.names.map(lambda s: s.capitalize()), gen_ir.names.filter(lambda s: s != "infer"), st.sampled_from(["f", "g", "e", "fn", "run", "inf", "er", "main_"])), min_size=n, max_size=n, unique_by=str.lower))
    kind = draw(st.sampled_from(["class", "function", "argparse", "mixed", "json", "dir"]))
    if kind == "json":
        snames = snames[:1]  # one JSON-schema file is one entry of the mapping, named after the file
    irs = [draw(gen_ir.interface("common", min_params=1, max_params=4, returns=False, min_literal=2)) for _ in snames]
    kinds_in = [draw(st.sampled_from(["class", "function", "argparse"])) for _ in snames] if kind == "mixed" else [kind] * len(snames)
    if kind == "dir":
        # a directory as input mapping: one file per symbol, Python classes and JSON-schema files side by side
        kinds_in = [draw(st.sampled_from(["class", "class", "json"])) for _ in snames]
    return {
        "in": kind,
        "kinds_in": kinds_in,
        "names": snames,
        "irs": irs,
        "parse": "infer" if kind in ("mixed", "dir") else draw(st.sampled_from(["explicit", "infer"])),
        "emit": draw(st.sampled_from(EMITS)),
        "tpl": draw(st.sampled_from(TPLS)),
        "infer": draw(st.booleans()),
        "prepend": draw(st.sampled_from([None, None, "import os\n", "from typing import Any\nimport json\n", "from __future__ import annotations\n", "from __future__ import annotations\nimport os\n", '"""Module doc."""\nfrom __future__ import annotations\nfrom typing import Any\n'])),
        "existing": draw(st.integers(0, 4)) == 0,
    }


def strategy(ctx):
    return case_strategy()


def json_input(nm, ir_case):
    with core.quiet():
        return json.dumps(cdd.json_schema.emit.json_schema(gen_ir.to_ir(ir_case, name=nm)))


def write_input(case, d):
    """-> path handed to --input-mapping (a .py file, a .json file or a directory of both)"""
    kinds = case.get("kinds_in") or [case["in"]] * len(case["names"])
    if case["in"] == "json":
        p = os.path.join(d, case["names"][0] + ".json")
        with open(p, "w") as f:
            f.write(json_input(case["names"][0], case["irs"][0]))
        return p
    if case["in"] == "dir":
        dd = os.path.join(d, "inputs")
        os.mkdir(dd)
        for nm, ir_case, k in zip(case["names"], case["irs"], kinds):
            if k == "json":
                with open(os.path.join(dd, nm + ".json"), "w") as f:
                    f.write(json_input(nm, ir_case))
            else:
                with open(os.path.join(dd, "mod_" + nm.lower() + ".py"), "w") as f:
                    f.write(render_input({"names": [nm], "irs": [ir_case], "in": k}))
        return dd
    p = os.path.join(d, "inp.py")
    with open(p, "w") as f:
        f.write(render_input(case))
    return p


def render_input(case):
    parts = ["from typing import *", ""]
    for nm, ir_case, k_in in zip(case["names"], case["irs"], case.get("kinds_in") or [case["in"]] * len(case["names"])):
        ir = gen_ir.to_ir(ir_case, name=nm)
        with core.quiet():
            if k_in == "class":
                src, _ = hops.emit_src("class", ir, class_name=nm)
            elif k_in == "function":
                src, _ = hops.emit_src("function", ir, function_name=nm, function_type="static", emit_as_kwonlyargs=False)
            else:
                src, _ = hops.emit_src("argparse", ir, function_name=nm)
        parts += [src, ""]
    return "\n".join(parts) + "\n"


def top_names(mod):
    out = []
    for x in mod.body:
        if isinstance(x, (ast.FunctionDef, ast.AsyncFunctionDef, ast.ClassDef)):
            out.append(x.name)
        elif isinstance(x, ast.Assign) and len(x.targets) == 1 and isinstance(x.targets[0], ast.Name) and x.targets[0].id != "__all__":
            out.append(x.targets[0].id)
    return out


def imported_names(mod):
    out = set()
    for x in ast.walk(mod):
        if isinstance(x, ast.ImportFrom):
            out |= {a.asname or a.name for a in x.names}
        elif isinstance(x, ast.Import):
            out |= {(a.asname or a.name).split(".")[0] for a in x.names}
    return out


def used_typing_names(mod):
    out = set()
    for x in ast.walk(mod):
        if isinstance(x, ast.Name) and isinstance(x.ctx, ast.Load) and x.id in TYPING_ALL:
            out.add(x.id)
    return out


def _json_renamed(case):
    """P17d (the SQLAlchemy emitters name the class after the IR, not after the mapping key) also shows with the
    identity template when the IR name differs from the key: a JSON-schema file's IR is named
    pascal_to_upper_camelcase(stem), which upper-cases the first letter and a letter that follows a digit / underscore (`d0` -> `D0`, `Bie1f0` -> `Bie1F0`)"""
    import re

    kinds = case.get("kinds_in") or [case["in"]] * len(case["names"])
    return any(k == "json" and (n[0].islower() or re.search(r"[0-9_][a-z]", n)) for n, k in zip(case["names"], kinds))


def view(ir):
    return [(n, default_view(p)) for n, p in ir["params"].items()]


def oracle(case):
    r = Result()
    emit, tpl = case["emit"], case["tpl"]
    r.label("in:" + case["in"], "emit:" + ("sqlalchemy" if emit.startswith("sqlalchemy") else emit), "tpl:" + tpl, "parse:" + case["parse"], "n_symbols=%d" % len(case["names"]))
    if case["infer"]:
        r.label("infer-imports")
    if case["prepend"]:
        r.label("prepend")
    if case["existing"]:
        r.label("existing-output")
    d = tempfile.mkdtemp(prefix="c19_", dir="/dev/shm" if os.path.isdir("/dev/shm") else None)
    try:
        op = os.path.join(d, "out.json" if emit == "json_schema" else "out.py")
        ip = write_input(case, d)
        parse = {"class": "class", "function": "function", "argparse": "argparse", "json": "json_schema"}[case["in"]] if case["parse"] == "explicit" else "infer"
        if len(set(case.get("kinds_in") or [])) > 1:
            r.label("mixed-kinds-in-one-module")
        argv = ["gen", "--name-tpl", tpl, "--input-mapping", ip, "--parse", parse, "--emit", emit, "-o", op]
        if case["infer"]:
            argv.append("--emit-and-infer-imports")
        if case["prepend"]:
            argv += ["--prepend", case["prepend"]] + (["--imports-from-file", ip] if ip.endswith(".py") else [])
        if case["existing"]:
            with open(op, "w") as f:
                f.write("SENTINEL = 1\n")
            st0 = os.stat(op)
            raised = False
            try:
                with core.quiet():
                    cdd.__main__.main(argv)
            except BaseException as e:
                if isinstance(e, (core.CaseTimeout, KeyboardInterrupt)):
                    raise
                raised = True
            if not raised:
                r.fail("overwrite-not-refused", "gen ran on an existing output file without raising")
            st1 = os.stat(op)
            if open(op).read() != "SENTINEL = 1\n" or st1.st_mtime_ns != st0.st_mtime_ns:
                r.fail("existing-file-touched", "the existing output file was modified")
            r.nontrivial = len(case["names"]) >= 2 and tpl != "{name}"
            return r
        try:
            with core.quiet():
                cdd.__main__.main(argv)
        except BaseException as e:
            if isinstance(e, (core.CaseTimeout, KeyboardInterrupt)):
                raise
            if "argparse" in (case.get("kinds_in") or [case["in"]]) and emit in ("json_schema", "sqlalchemy", "sqlalchemy_hybrid", "sqlalchemy_table") and is_open("P38"):
                r.covered("P38")  # argparse IR has no 'returns' key: these emitters index it
            else:
                r.fail("gen-raises", "%s (in=%s parse=%s emit=%s tpl=%s infer=%s prepend=%s)" % (core.exc_bucket(e), case["in"], parse, emit, tpl, case["infer"], bool(case["prepend"])))
            return r
        if not os.path.isfile(op):
            r.fail("no-output", "gen returned but wrote nothing")
            return r
        res = open(op).read()
    finally:
        shutil.rmtree(d, ignore_errors=True)
    want = [tpl.format(name=n) for n in case["names"]]
    if emit == "json_schema":
        try:
            doc = json.loads(res)
        except Exception as e:
            r.fail("json-invalid", str(e))
            return r
        # one schema per entry, each with the parameters of its source entry in order
        schemas = doc["schemas"] if isinstance(doc, dict) and "schemas" in doc else [doc]
        if len(schemas) != len(case["names"]):
            r.fail("json-schema-count", "%d schemas for %d entries" % (len(schemas), len(case["names"])))
        else:
            by_props = sorted(json.dumps(list(sch.get("properties", {}))) for sch in schemas)
            want_props = sorted(json.dumps([n for n, _p in ir_case["params"]]) for ir_case in case["irs"])
            if by_props != want_props:
                r.fail("json-schema-properties", "schemas carry %s, entries %s" % (by_props, want_props))
        r.nontrivial = len(case["names"]) >= 2 and tpl != "{name}"
        return r
    try:
        mod = ast.parse(res)
        compile(res, "<gen output>", "exec")
    except SyntaxError as e:
        r.fail("output-not-python", "%s in %r" % (e, res[:300]))
        return r
    defined = top_names(mod)
    alls = [ast.literal_eval(x.value) for x in mod.body if isinstance(x, ast.Assign) and getattr(x.targets[0], "id", "") == "__all__"]
    all_ = alls[-1] if alls else None
    if all_ is None:
        r.fail("no-__all__", "the generated module has no __all__")
    elif sorted(all_) != sorted(want):
        r.fail("__all__-mismatch", "__all__=%s, templated names %s" % (sorted(all_), sorted(want)))
    sql = emit.startswith("sqlalchemy")
    extra_ok = {"Base", "metadata"} if sql else set()
    if sorted(set(defined) - extra_ok) != sorted(want):
        if sql and (tpl != "{name}" or _json_renamed(case)) and is_open("P17d"):
            r.covered("P17d")
        else:
            r.fail("defined-names", "defined %s, templated names %s" % (sorted(defined), sorted(want)))
    # each generated symbol, parsed back, has the interface of its source entry
    fmt = {"argparse": "argparse", "class": "class", "function": "function", "pydantic": "pydantic", "sqlalchemy": "sqlalchemy", "sqlalchemy_hybrid": "sqlalchemy_hybrid", "sqlalchemy_table": "sqlalchemy_table"}[emit]
    nodes = {}
    for x in mod.body:
        nm = getattr(x, "name", None) or (x.targets[0].id if isinstance(x, ast.Assign) and isinstance(x.targets[0], ast.Name) else None)
        if nm:
            nodes[nm] = x
    kinds_in = case.get("kinds_in") or [case["in"]] * len(case["names"])
    for nm, w, ir_case, k_in in zip(case["names"], want, case["irs"], kinds_in):
        lossy = "argparse" in (k_in, emit) or "function" in (k_in, emit)
        node = nodes.get(w) or (nodes.get(nm) if sql else None)
        if node is None:
            continue  # reported by the naming clauses
        if sql and (tpl != "{name}" or (k_in == "json" and _json_renamed(case))) and is_open("P17d"):
            r.covered("P17d")  # the Table/class is bound to the un-templated name: the parsers' name assertions fail
            continue
        try:
            with core.quiet():
                back = getattr(getattr(cdd, {"class": "class_", "argparse": "argparse_function"}.get(fmt, fmt if not sql else "sqlalchemy")).parse, {"class": "class_", "argparse": "argparse_ast"}.get(fmt, fmt))(node)
        except Exception as e:
            r.fail("symbol-reparse-raises", "%s: %s" % (w, core.exc_bucket(e)))
            continue
        src_ir = gen_ir.to_ir(ir_case)
        got_names = [n for n in back["params"] if not (sql and n == "id" and "id" not in src_ir["params"])]
        if got_names != list(src_ir["params"]):
            r.fail("symbol-interface", "%s: parameters %s, source entry %s" % (w, got_names, list(src_ir["params"])))
            continue
        for n, p in src_ir["params"].items():
            b = back["params"][n]
            d1, d2 = default_view(b, typ=p["typ"]), default_view(p)
            if d1 != d2:
                if lossy and "default" not in p:
                    continue  # '=None' / zero-value normalisations of function and argparse hops (C02, P13, P14)
                r.fail("symbol-interface", "%s.%s: default %r, source entry %r" % (w, n, d1, d2))
            t1, t2 = b.get("typ"), p["typ"]
            if sql and is_optional(t2) and "default" in p and p["default"] != gen_ir.NoneStr:
                continue  # Optional with a non-None default is outside the SQL-representable domain (C05's quantifier)
            if t1 != t2:
                if k_in == "json" and literal_members(t1) is not None and sorted(literal_members(t1)) == sorted(literal_members(t2) or []) and is_optional(t1) == is_optional(t2):
                    continue  # a JSON-schema carries Literal members as a sorted pattern (C06: compared as a set)
                if lossy and ("default" not in p or t1 == "Optional[%s]" % t2):
                    continue
                if sql and t2 == "dict":
                    continue
                r.fail("symbol-interface", "%s.%s: type %r, source entry %r" % (w, n, t1, t2))
    if case["infer"] and not sql:
        missing = used_typing_names(mod) - imported_names(mod) - set(defined)
        if missing:
            r.fail("imports-missing", "typing names used but not imported: %s" % sorted(missing))
    body = [x for x in mod.body if not (isinstance(x, ast.Expr) and isinstance(x.value, ast.Constant))]
    fut = [i for i, x in enumerate(body) if isinstance(x, ast.ImportFrom) and x.module == "__future__"]
    if fut and fut != list(range(len(fut))):
        r.fail("future-import-order", "__future__ imports are not first")
    r.nontrivial = len(case["names"]) >= 2 and tpl != "{name}"
    return r


# ---- metamorphic layer: `--parse infer` must choose the parser the input calls for ----------------------------------
# A SQLAlchemy model as input (the emitters' own output with the base-class list varied: `Base` alone, mixins first,
# mixins last).  What `gen` names such symbols is P37's matter; THIS layer only demands that `--parse infer` writes the
# same bytes as the explicit `--parse sqlalchemy` on the same file (or fails where that fails).
@st.composite
def infer_case(draw):
    ir = draw(gen_ir.interface("common", min_params=1, max_params=4, returns=False))
    return {"ir": ir, "bases": draw(st.sampled_from(["Base", "Base", "TimestampMixin, Base", "Base, TimestampMixin", "AuditMixin, TimestampMixin, Base"])),
            "emit": draw(st.sampled_from(["class", "argparse", "function", "sqlalchemy"])), "cls": draw(st.sampled_from(["User", "Item", "LogEntry"])), "metamorphic": "infer"}


def oracle_infer(case):
    r = Result()
    r.label("infer-vs-explicit", "bases:" + ("Base-only" if case["bases"] == "Base" else "Base-first" if case["bases"].startswith("Base") else "mixins-first"))
    d = tempfile.mkdtemp(prefix="c19i_", dir="/dev/shm" if os.path.isdir("/dev/shm") else None)
    try:
        with core.quiet():
            src, _ = hops.emit_src("sqlalchemy", gen_ir.to_ir(case["ir"]), class_name=case["cls"], table_name=case["cls"].lower())
        src = src.replace("class %s(Base)" % case["cls"], "class %s(%s)" % (case["cls"], case["bases"]), 1)
        if "class %s(%s)" % (case["cls"], case["bases"]) not in src:
            raise core.HarnessError("could not vary the bases of the emitted model:\n%s" % src[:300])
        ip = os.path.join(d, "models.py")
        with open(ip, "w") as f:
            f.write(src + "\n")
        outs = {}
        for parse in ("sqlalchemy", "infer"):
            op = os.path.join(d, "out_%s.py" % parse)
            try:
                with core.quiet():
                    cdd.__main__.main(["gen", "--name-tpl", "{name}Gen", "--input-mapping", ip, "--parse", parse, "--emit", case["emit"], "-o", op])
                outs[parse] = open(op).read() if os.path.exists(op) else "<no file>"
            except BaseException as e:
                if isinstance(e, (core.CaseTimeout, KeyboardInterrupt)):
                    raise
                outs[parse] = "<raises %s>" % type(e).__name__
                r.exc.append("infer-layer %s %s" % (parse, core.exc_bucket(e)))
        if outs["infer"] != outs["sqlalchemy"]:
            r.fail("infer-differs-from-explicit", "bases (%s), --emit %s: --parse infer gives %r, --parse sqlalchemy gives %r" % (case["bases"], case["emit"], outs["infer"][:300], outs["sqlalchemy"][:300]))
        r.nontrivial = case["bases"] != "Base" and not outs["sqlalchemy"].startswith("<")
    finally:
        shutil.rmtree(d, ignore_errors=True)
    return r


def layer_infer(ctx):
    ctx.run_given("infer-vs-explicit", infer_case(), oracle_infer, max(10, ctx.cfg["n"] // 4))


def layer_main(ctx):
    ctx.run_given("gen", strategy(ctx), oracle, ctx.cfg["n"])


LAYERS = [("gen", layer_main), ("infer-vs-explicit", layer_infer)]


def replay(case):
    if case.get("metamorphic") == "infer":
        return oracle_infer(case)
    return oracle(case)
