"""C10 - output is a deterministic function of the input alone (DESIGN 4/C10).
Metamorphic relation over the ENVIRONMENT: same (api, input) under different PYTHONHASHSEED, call history and
position in the process must give the same bytes."""
import json
import os
import random
import subprocess
import sys
import tempfile
from concurrent.futures import ThreadPoolExecutor

from hypothesis import strategies as st

from vlib import core, gen_ir, gen_prog
from vlib.core import Result

ID = "C10"
RULE = (
    "inputs are generated in the parent with Hypothesis (functions whose docstring documents a subset / permutation "
    "of the signature, classes, argparse functions, JSON-schemas, SQLAlchemy classes, modules for gen / import "
    "inference / doctrans, package __init__ files); call scripts are orders, repetitions and interleavings of "
    "(api,input) calls, some preceded by unrelated imports / a gen call that leaks prepend-imports; every script runs "
    "in a FRESH interpreter per PYTHONHASHSEED in {0..k-1, random}; one evaluation = one (api,input) pair compared "
    "over all interpreters and positions. Non-trivial = the input takes the merge path (docstring and signature name "
    "sets differ) or needs import inference for >=2 symbols. Distinct = SHA-1 of (api,input)."
)
TIERS = {
    "quick": {"shards": 1, "n_inputs": 20, "seeds": 8, "scripts": 10, "workers": 16, "budget_s": 240},
    "thorough": {"shards": 1, "n_inputs": 40, "seeds": 48, "scripts": 24, "workers": 16, "budget_s": 3000},
}
FLOOR = {"quick": 20, "thorough": 100}
ASSUMPTIONS = [
    "key order *inside* one parameter's dict (typ/doc/default) is not treated as output: the IR is serialised with the order of parameters preserved and the keys of each parameter sorted",
    "hash seeds are sampled (0..k-1 and 'random'): an order dependence that needs a seed outside the sample is missed",
]
WORKER = os.path.join(core.ROOT, "vlib", "c10_worker.py")


def init_worker(ctx):
    from vlib import hops

    hops.load()


# ------------------------------------------------------------------------------------ input generators
@st.composite
def fn_subset(draw):
    """function whose docstring documents a subset / permutation of the signature (the shape named in the property)"""
    n = draw(st.integers(3, 8))
    ns = draw(st.lists(gen_ir.names, min_size=n, max_size=n, unique=True))
    doc_names = draw(st.lists(st.sampled_from(ns), min_size=0, max_size=n, unique=True))
    extra = draw(st.lists(gen_ir.names.filter(lambda s: s not in ns), max_size=2, unique=True))  # documented, not in signature
    style = draw(st.sampled_from(["rest", "google", "numpydoc"]))
    ps = [{"name": a, "doc": draw(gen_ir.descr), "doctyp": draw(st.sampled_from(["int", "str", None]))} for a in doc_names + extra]
    lines = gen_prog.DOCS[style](ps, ("int", "the result") if draw(st.booleans()) else None, "Does the thing.", True)
    sig = []
    for a in ns:
        ann = draw(st.sampled_from(["", ": int", ": str", ": Optional[float]"]))
        dflt = draw(st.sampled_from(["", "", "=1", "=None", "='x'"]))
        sig.append(a + ann + dflt)
    seen = False
    for i, s in enumerate(sig):  # keep defaults a suffix
        if "=" in s:
            seen = True
        elif seen:
            sig[i] = s + "=None"
    src = "def f(%s):\n    \"\"\"\n%s\n    \"\"\"\n    return 1\n" % (", ".join(sig), "\n".join(("    " + l) if l else "" for l in lines))
    return {"src": src, "style": style, "merge": set(doc_names + extra) != set(ns) or doc_names != ns}


@st.composite
def set_default_fn(draw):
    """def f(opt={"SGD", "sgd", ...}, n={3, 1, 2}, k=5): parameters whose default is a set display"""
    words = draw(st.lists(st.sampled_from(["SGD", "sgd", "Adam", "adam", "RMSprop", "rmsprop", "Nadam", "lbfgs", "LBFGS"]), min_size=2, max_size=6, unique=True))
    ints = draw(st.lists(st.integers(-5, 40), min_size=2, max_size=5, unique=True))
    names = draw(st.lists(gen_ir.names, min_size=3, max_size=3, unique=True))
    sig = "%s={%s}, %s={%s}, %s=%d" % (names[0], ", ".join(map(repr, words)), names[1], ", ".join(map(str, ints)), names[2], draw(st.integers(0, 9)))
    doc = "\n".join("    :param %s: the %s" % (a, a) for a in names)
    return {"src": "def f(%s):\n    \"\"\"\n    Does the thing.\n\n%s\n    \"\"\"\n    return 1\n" % (sig, doc), "style": "rest"}


def emitted(fmt, profile="signature", **kw):
    def build(case):
        from vlib import hops

        with core.quiet():
            src, _ = hops.emit_src(fmt, gen_ir.to_ir(case), **kw)
        return {"src": src}

    return gen_ir.interface(profile, min_params=2, max_params=6).map(build)


@st.composite
def gen_module(draw):
    from vlib import hops

    n = draw(st.integers(2, 4))
    cls_names = draw(st.lists(gen_ir.names.map(str.capitalize), min_size=n, max_size=n, unique=True))
    parts = []
    for cn in cls_names:
        case = draw(gen_ir.interface("executable", min_params=1, max_params=4, returns=False))
        with core.quiet():
            src, _ = hops.emit_src("class", gen_ir.to_ir(case, name=cn), class_name=cn)
        parts.append(src)
    return {"src": "\n\n".join(parts) + "\n", "n": n}


@st.composite
def pkg_init(draw):
    ns = draw(st.lists(gen_ir.names, min_size=2, max_size=6, unique=True))
    body = ["from os import path, sep", "from json import %s" % ", ".join(["dumps", "loads"])]
    for a in ns:
        body += ["", "def %s(x):" % a, "    return x"]
    exported = draw(st.lists(st.sampled_from(ns + ["path", "dumps"]), min_size=1, unique=True))
    body.append("")
    body.append("__all__ = %r" % exported)
    return {"src": "\n".join(body) + "\n"}


@st.composite
def sync_input(draw):
    from vlib import hops

    irs = [draw(gen_ir.interface("common", min_params=2, max_params=4, returns=False, min_literal=2)) for _ in range(3)]
    with core.quiet():
        c = hops.emit_src("class", gen_ir.to_ir(irs[0]), class_name="ConfigClass")[0]
        f = hops.emit_src("function", gen_ir.to_ir(irs[1]), function_name="method_name", function_type="static", emit_as_kwonlyargs=False)[0]
        a = hops.emit_src("argparse", gen_ir.to_ir(irs[2]), function_name="set_cli_args")[0]
    return {"c": "X = 1\n\n" + c + "\n", "f": f + "\n", "a": "import json\n\n" + a + "\n", "truth": draw(st.sampled_from(["class", "function", "argparse_function"]))}


ODD_SCALARS = ["bytes", "Decimal", "UUID", "object", "Blob", "datetime", "complex"]


@st.composite
def odd_typed_class(draw):
    """class attributes of scalar types outside the type tables, alone and inside 2-member Unions - the shape on which
    a module-level table that is WRITTEN during a conversion makes a later conversion differ"""
    n = draw(st.integers(1, 3))
    ns = draw(st.lists(gen_ir.names, min_size=n, max_size=n, unique=True))
    lines = ["class K(object):", '    """', "    The K.", ""]
    body = []
    for a in ns:
        t = draw(st.sampled_from(ODD_SCALARS))
        typ = draw(st.sampled_from([t, "Union[str, %s]" % t, "Union[int, %s]" % t, "Optional[%s]" % t, "List[%s]" % t]))
        lines.append("    :cvar %s: the %s" % (a, a))
        body.append("    %s: %s" % (a, typ))
    return {"src": "\n".join(lines + ['    """'] + body) + "\n"}


def json_schema_input():
    def build(case):
        from vlib import hops

        with core.quiet():
            sch = hops.load()["cdd"].json_schema.emit.json_schema(gen_ir.to_ir(case))
        return {"schema": json.loads(json.dumps(sch)), "name": "Foo"}

    return gen_ir.interface("json", min_params=2, max_params=6, returns=False, min_literal=2).map(build)


def draw_examples(strategy, n, seed):
    import hypothesis
    from hypothesis import HealthCheck, Phase, given, settings

    out = []

    @hypothesis.seed(seed)
    @settings(max_examples=n, database=None, deadline=None, suppress_health_check=list(HealthCheck), phases=[Phase.generate])
    @given(strategy)
    def t(x):
        if len(out) < n:
            out.append(x)

    t()
    return out


def build_job(ctx):
    n = ctx.cfg["n_inputs"]
    inputs, calls, nontrivial = {}, [], set()

    def add(prefix, strat, apis, count, nt=lambda x: False):
        for i, x in enumerate(draw_examples(strat, count, ctx.derived_seed(prefix))):
            key = "%s%d" % (prefix, i)
            if isinstance(x, dict) and "merge" in x:
                x = dict(x)
                if x.pop("merge"):
                    nontrivial.add(key)
            elif nt(x):
                nontrivial.add(key)
            inputs[key] = x
            for a in apis:
                calls.append([a, key])

    add("fn", fn_subset(), ["function_parse", "function_roundtrip", "function_positional", "function_to_class", "function_to_argparse", "function_to_docstring"], n * 2)
    # set-valued defaults (members that differ only in case, unsorted ints): a Python set is the one value whose own
    # order depends on the hash seed.  The JSON-schema file is strict; the emitters that print the set are P80
    add("setdef", set_default_fn(), ["gen_json_file", "function_to_class", "function_to_argparse", "function_roundtrip"], max(2, n // 3), nt=lambda x: True)
    add("cls", emitted("class"), ["class_parse", "class_to_all"], n)
    add("arg", emitted("argparse", "common"), ["argparse_parse"], max(2, n // 2))
    add("odd", odd_typed_class(), ["class_parse", "class_to_all"], n)
    add("js", json_schema_input(), ["json_parse", "openapi"], max(2, n // 2))
    add("sql", emitted("sqlalchemy", "common", class_name="Foo", table_name="foo_tbl"), ["sqlalchemy_parse", "sqlalchemy_variants"], max(2, n // 2))
    from vlib import gen_doc

    add("doc", gen_doc.docstr(footer=False).map(lambda d: {"text": d["text"]}), ["docstring_parse", "docstring_roundtrip"], n)
    add("sync", sync_input(), ["sync"], max(2, n // 3))
    add("mod", gen_module(), ["infer_imports"], max(2, n // 2), nt=lambda x: x["n"] >= 2)
    for i, x in enumerate(draw_examples(gen_module(), max(2, n // 2), ctx.derived_seed("gen"))):
        for emit in ("class", "function", "argparse", "sqlalchemy", "pydantic"):
            key = "gen%d_%s" % (i, emit)
            inputs[key] = {"src": x["src"], "emit": emit, "parse": "class", "infer": True}
            calls.append(["gen", key])
            nontrivial.add(key)
    add("dt", gen_prog.module(max_items=3), ["doctrans"], max(2, n // 2))
    # live objects (imported from a real file): the `inspect`-based path of the function / class parsers
    add("lfn", fn_subset().map(lambda x: {"src": x["src"], "obj": "f"}), ["live_function"], n, nt=lambda x: True)
    add("lfe", emitted("function", "executable", function_name="f", function_type="static").map(lambda x: dict(x, obj="f")), ["live_function"], max(2, n // 2), nt=lambda x: True)
    add("lcl", emitted("class", "executable", class_name="K").map(lambda x: dict(x, obj="K")), ["live_class"], max(2, n // 2), nt=lambda x: True)
    add("pkg", pkg_init(), ["module_contents"], max(2, n // 3))
    # an unrelated call that leaks prepend-imports into cdd.compound.gen's globals (state named in the anchors)
    inputs["leak"] = {"src": inputs["gen0_class"]["src"], "emit": "class", "parse": "class", "infer": False, "prepend": "from collections import OrderedDict as K\nimport json as path\n"}
    rnd = random.Random(ctx.derived_seed("scripts"))
    scripts = [
        {"name": "canonical", "calls": list(calls)},
        {"name": "reversed", "calls": list(reversed(calls))},
        {"name": "each-twice", "calls": [c for c in calls for _ in (0, 1)]},
        {"name": "leak-first", "import_first": ["cdd.compound.openapi.utils.emit_utils"], "calls": [["gen", "leak"]] + list(calls)},
        {"name": "sqlalchemy-first", "import_first": ["cdd.sqlalchemy.utils.emit_utils", "cdd.compound.exmod_utils"], "calls": sorted(calls)},
    ]
    while len(scripts) < ctx.cfg["scripts"]:
        perm = list(calls)
        rnd.shuffle(perm)
        k = rnd.randrange(len(perm))
        perm = perm[:k] + [["gen", "leak"]] + perm[k:] + rnd.sample(calls, min(len(calls), 10))
        scripts.append({"name": "perm%d" % len(scripts), "calls": perm})
    return {"inputs": inputs, "scripts": scripts}, nontrivial


def run_script(jobfile, idx, hashseed):
    env = dict(os.environ)
    env.update(PYTHONHASHSEED=str(hashseed), PYTHONDONTWRITEBYTECODE="1", VERIF_REPO=core.REPO)
    env.pop("PYTHONPATH", None)
    p = subprocess.run([sys.executable, WORKER, jobfile, str(idx)], env=env, capture_output=True, text=True, timeout=1200)
    if p.returncode != 0:
        raise core.HarnessError("C10 worker failed (script %d, seed %s): %s" % (idx, hashseed, p.stderr[-800:]))
    return json.loads(p.stdout)


def compare(runs):
    """runs: list of (script idx, seed, results) -> {(api,key): {digest: [(script, seed, pos, text)]}}"""
    table = {}
    for si, seed, res in runs:
        for pos, (api, key, dig, text) in enumerate(res):
            table.setdefault((api, key), {}).setdefault(dig, []).append((si, seed, pos, text))
    return table


def layer_main(ctx):
    ctx.layer = "procs"
    job, nontrivial = build_job(ctx)
    tmp = tempfile.mkdtemp(prefix="c10_", dir="/dev/shm" if os.path.isdir("/dev/shm") else None)
    try:
        jobfile = os.path.join(tmp, "job.json")
        json.dump(job, open(jobfile, "w"))
        seeds = list(range(ctx.cfg["seeds"] - 1)) + ["random"]
        tasks = [(si, sd) for si in range(len(job["scripts"])) for sd in seeds]
        # not the full product in quick: every script at seed 0 and one other seed, canonical script at every seed
        if ctx.tier == "quick":
            tasks = [(si, sd) for si, sd in tasks if si == 0 or sd == 0 or (si + 1) % len(seeds) == seeds.index(sd)]
        runs = []
        with ThreadPoolExecutor(ctx.cfg["workers"]) as ex:
            for (si, sd), res in zip(tasks, ex.map(lambda t: run_script(jobfile, t[0], t[1]), tasks)):
                runs.append((si, sd, res))
        table = compare(runs)
        ctx.stats.notes.append("%d interpreters, %d scripts, seeds %s, %d calls compared" % (len(tasks), len(job["scripts"]), seeds, sum(len(r[2]) for r in runs)))
        for (api, key), by_digest in sorted(table.items()):
            r = Result()
            r.nontrivial = key in nontrivial
            r.label("api:" + api)
            n_obs = sum(len(v) for v in by_digest.values())
            r.label("observations>=10" if n_obs >= 10 else "observations<10")
            first_text = next(iter(by_digest.values()))[0][3]
            if first_text.startswith("EXC:"):
                r.exc.append(first_text[:80])
            if len(by_digest) > 1 and key.startswith("setdef") and api != "gen_json_file" and core.is_open("P80"):
                r.covered("P80")  # the emitters print a set-valued default in the set's own (hash-seed dependent) order
                ctx.record([api, key, job["inputs"][key]], r)
            elif len(by_digest) > 1:
                (d1, o1), (d2, o2) = list(by_digest.items())[:2]
                a, b = o1[0], o2[0]
                r.fail(
                    "nondeterministic",
                    "%s on input %s: script %s seed %s pos %d gives %r..., script %s seed %s pos %d gives %r..."
                    % (api, key, job["scripts"][a[0]]["name"], a[1], a[2], _difftext(a[3], b[3])[0], job["scripts"][b[0]]["name"], b[1], b[2], _difftext(a[3], b[3])[1]),
                )
                case = {
                    "inputs": {key: job["inputs"][key], **({"leak": job["inputs"]["leak"]} if True else {})},
                    "scripts": [_minimal_script(job, a[0], api, key, a[2]), _minimal_script(job, b[0], api, key, b[2])],
                    "seeds": [a[1], b[1]],
                    "api": api,
                    "key": key,
                    "all_inputs": job["inputs"],
                }
                ctx.record([api, key], r)
                ctx.violation(case, r.failures)
            else:
                ctx.record([api, key, job["inputs"][key]], r)
    finally:
        import shutil

        shutil.rmtree(tmp, ignore_errors=True)
    ctx.layer = None


def _difftext(a, b):
    i = 0
    while i < min(len(a), len(b)) and a[i] == b[i]:
        i += 1
    return a[max(0, i - 30) : i + 40], b[max(0, i - 30) : i + 40]


def _minimal_script(job, si, api, key, pos):
    s = job["scripts"][si]
    return {"name": s["name"], "import_first": s.get("import_first", []), "calls": s["calls"][: pos + 1]}


LAYERS = [("procs", layer_main)]


def replay(case):
    """re-run the two (script, seed) pairs and compare the digests of the (api,key) call"""
    r = Result()
    tmp = tempfile.mkdtemp(prefix="c10r_", dir="/dev/shm" if os.path.isdir("/dev/shm") else None)
    try:
        jobfile = os.path.join(tmp, "job.json")
        json.dump({"inputs": case.get("all_inputs") or case["inputs"], "scripts": case["scripts"]}, open(jobfile, "w"))
        digs = []
        for i, sd in enumerate(case["seeds"]):
            res = run_script(jobfile, i, sd)
            digs.append([x for x in res if x[0] == case["api"] and x[1] == case["key"]][-1])
        if digs[0][2] != digs[1][2]:
            a, b = _difftext(digs[0][3], digs[1][3])
            r.fail("nondeterministic", "%s on %s: %r vs %r" % (case["api"], case["key"], a, b))
    finally:
        import shutil

        shutil.rmtree(tmp, ignore_errors=True)
    return r
