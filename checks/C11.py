"""C11 - every parse, emit and doctrans call terminates (DESIGN 4/C11).
Termination is decided as bounded progress: stage 1 runs the call untraced under an interval timer that is orders of
magnitude above the normal time (a filter, never a verdict); stage 2 re-runs a filtered call under a deterministic
step budget B(n) = c0 + c1*n + c2*n^2 counted in `line` events inside cdd (sys.settrace); only 'timer tripped AND
step budget exceeded' is a violation."""
import itertools
import os
import shutil
import signal
import sys
import tempfile
from collections import OrderedDict

from hypothesis import strategies as st

from vlib import core, gen_ir, gen_prog
from vlib.core import Result

ID = "C11"
RULE = (
    "cases are (entry point, input): (a) EVERY sequence of <=N tokens of an 18-token docstring alphabet fed to "
    "parse_docstring, the header/args/footer splitter, extract_default, parse_adhoc_doc_for_typ and docstring.emit (as "
    "header doc and as original_doc_str); (b) generated interfaces with arbitrary prose (empty, whitespace-only, "
    "leading blank / whitespace-only line, section markers without bodies, truncated) x 3 styles x indent 0..3 through "
    "docstring.emit and the class/function/argparse emitters; (c) generated modules x doctrans applied 1..3 times; "
    "(d) cst_parse on token soups. Non-trivial = the input has an empty or whitespace-only first line, or a section "
    "marker with no body, or is a re-application. Distinct = SHA-1 of (entry point, input)."
)
TIERS = {
    "quick": {"shards": 8, "exh_len": 4, "hyp": 500, "doctrans": 12, "budget_s": 220},
    "thorough": {"shards": 16, "exh_len": 5, "hyp": 8000, "doctrans": 400, "budget_s": 2700},
}
FLOOR = {"quick": 20000, "thorough": 200000}
REQUIRED_LABELS = {"quick": ["ws-first-line", "marker-no-body", "reapplied", "fn:emit_doc", "fn:doctrans", "fn:param_doc", "fn:adhoc"], "thorough": []}
ASSUMPTIONS = [
    "a step = one `line` trace event inside a file of VERIF_REPO/cdd; B(n) = 1e5 + c*(n+50) with c = 1000 (10000 for doctrans and cst_parse), >=20x the largest steps-per-character ratio observed on the unchanged tree over the generated sizes",
    "the stage-1 timer (>=1 s for inputs of <=60 characters, i.e. >=10^4 x the normal time) only selects candidates; a call that finishes late but inside the step budget is recorded as slow (inconclusive), never as a violation",
]
TOK = [":param ", ":type ", ":return: ", ":rtype: ", "Args:\n", "Returns:\n", "Raises:\n", "Parameters\n----------\n", "Returns\n-------\n", "name", " (int)", "```", ":", "\n", "  ", "    ", "Defaults to ", ".", " or ", "\t", "'x'"]
# tokens of the prose-to-type scanners (union / literal / "list of" sentences), with non-blank whitespace
TYPEY = ["One of ", "Either ", "'min'", "'max'", '"a"', ",", ", ", "\t", "\n", "\n    ", " ", "\u00a0", " or ", " of ", "`x`", "`np`", "list", "str", "int", "dict", "tuple", "number", ".", ". ", "whether ", "string", "None", "optional", "default", "(", ")", "[", "]"]


class Trip(BaseException):
    pass


class Budget(BaseException):
    pass


# per entry point: 20x the largest `line`-events-per-character ratio measured on the unchanged tree over the sizes
# the generators produce (doctrans / cst are quadratic in the longest statement, hence the large coefficient)
LIN = {"doctrans": 10000, "cst": 10000}


def B(n, fn=None):
    return int(1e5 + LIN.get(fn, 1000) * (n + 50))


def T1(n, fn=None):
    return min(60.0, 1.0 + B(n, fn) / 5e6)


def _trip(*_a):
    raise Trip()


def init_worker(ctx):
    global FNS, cdd
    import cdd.__main__  # noqa: F401
    import cdd.argparse_function.emit
    import cdd.class_.emit
    import cdd.compound.doctrans
    import cdd.docstring.emit
    import cdd.docstring.parse
    import cdd.function.emit
    import cdd.function.parse
    import cdd.class_.parse
    from cdd.docstring.utils.parse_utils import parse_adhoc_doc_for_typ
    from cdd.shared.cst import cst_parse
    from cdd.shared.defaults_utils import extract_default
    from cdd.shared.docstring_parsers import parse_docstring
    from cdd.shared.docstring_utils import parse_docstring_into_header_args_footer as split
    from cdd.shared.source_transformer import to_code

    def ir_with(doc, pdoc="x"):
        return {"name": "f", "doc": doc, "params": OrderedDict((("a", {"typ": "int", "doc": pdoc}),)), "returns": None}

    def emit_ir(a):
        ir = gen_ir.to_ir(a["ir"])
        if a.get("orig") is not None:
            ir["_internal"] = {"original_doc_str": a["orig"]}
        kind = a.get("kind", "docstring")
        if kind == "docstring":
            return cdd.docstring.emit.docstring(ir, docstring_format=a["style"], indent_level=a["indent"], word_wrap=a.get("ww", True))
        if kind == "class":
            return to_code(cdd.class_.emit.class_(ir, docstring_format=a["style"]))
        if kind == "function":
            return to_code(cdd.function.emit.function(ir, function_name="f", function_type="static", docstring_format=a["style"], indent_level=a["indent"]))
        return to_code(cdd.argparse_function.emit.argparse_function(ir, docstring_format=a["style"]))

    def doctrans_n(a):
        d = tempfile.mkdtemp(prefix="c11_", dir="/dev/shm" if os.path.isdir("/dev/shm") else None)
        try:
            p = os.path.join(d, "m.py")
            with open(p, "w") as f:
                f.write(a["src"])
            for style, ta in a["runs"]:
                cdd.compound.doctrans.doctrans(filename=p, docstring_format=style, type_annotations=ta, no_word_wrap=None)
        finally:
            shutil.rmtree(d, ignore_errors=True)

    FNS = {
        "parse": lambda s: parse_docstring(s),
        "parse_top": lambda s: cdd.docstring.parse.docstring(s, emit_default_doc=False),
        "parse_nowrap": lambda s: parse_docstring(s, word_wrap=False),
        "param_doc": lambda s: parse_docstring(":param mode: %s\n:type mode: ```str```\n" % s),
        "param_doc_nowrap": lambda s: parse_docstring("Args:\n  mode: %s\n" % s, word_wrap=False),
        "split": lambda s: split(s, s),
        "extract": lambda s: extract_default(s, emit_default_doc=False),
        "adhoc": lambda s: parse_adhoc_doc_for_typ(s, "x", False),
        "emit_doc": lambda s: cdd.docstring.emit.docstring(ir_with(s, s or "x"), indent_level=1),
        "emit_orig": lambda s: cdd.docstring.emit.docstring(dict(ir_with("H"), _internal={"original_doc_str": s}), indent_level=1),
        "emit_ir": emit_ir,
        "doctrans": doctrans_n,
        "cst": lambda s: cst_parse(s),
        "fn_parse": lambda a: cdd.function.parse.function(_first_def(a["src"])),
        "class_parse": lambda a: cdd.class_.parse.class_(_first_class(a["src"])),
    }


def _first_def(src):
    import ast

    return next(n for n in ast.walk(ast.parse(src)) if isinstance(n, (ast.FunctionDef, ast.AsyncFunctionDef)))


def _first_class(src):
    import ast

    return next(n for n in ast.walk(ast.parse(src)) if isinstance(n, ast.ClassDef))


def size_of(arg):
    if isinstance(arg, str):
        return len(arg)
    if "src" in arg:
        return len(arg["src"]) * max(1, len(arg.get("runs", [1])))
    return len(core.canon(arg))


def traced(fn, arg, budget, wall_cap=3600.0):
    n = [0]
    prefix = core.REPO + os.sep + "cdd" + os.sep

    def local(frame, event, _arg):
        if event == "line":
            n[0] += 1
            if n[0] > budget:
                raise Budget()
        return local

    def tr(frame, event, _arg):
        return local if frame.f_code.co_filename.startswith(prefix) else None

    # wall-clock cap of the traced run: a loop whose iterations get slower and slower (growing list, growing string)
    # may stay under the step budget for minutes.  The cap is >= 20x the stage-1 timer, which itself is >= 10^4 x the
    # normal time; it only ever applies to calls that already tripped stage 1.
    old = signal.signal(signal.SIGALRM, _trip)
    signal.setitimer(signal.ITIMER_REAL, wall_cap)
    sys.settrace(tr)
    try:
        with core.quiet():
            fn(arg)
        return n[0], "done"
    except Budget:
        return n[0], "BUDGET"
    except Trip:
        return n[0], "WALL"
    except Exception:
        return n[0], "raised"
    finally:
        sys.settrace(None)
        signal.setitimer(signal.ITIMER_REAL, 0)
        signal.signal(signal.SIGALRM, old)


def run_case(case, force_stage2=False):
    """-> Result.  case = {"fn": name, "arg": ...}"""
    r = Result()
    fn, arg = FNS[case["fn"]], case["arg"]
    n = size_of(arg)
    tripped = False
    old = signal.signal(signal.SIGALRM, _trip)
    signal.setitimer(signal.ITIMER_REAL, T1(n, case["fn"]))
    try:
        with core.quiet():
            fn(arg)
    except Trip:
        tripped = True
    except Exception as e:  # "returns or raises": both are fine
        r.exc.append(core.exc_bucket(e))
    finally:
        signal.setitimer(signal.ITIMER_REAL, 0)
        signal.signal(signal.SIGALRM, old)
    if tripped or force_stage2:
        steps, how = traced(fn, arg, B(n, case["fn"]), wall_cap=max(10.0, 10 * T1(n, case["fn"])) if tripped else 3600.0)
        r.info["steps"] = steps
        if how == "WALL" and tripped:
            r.fail("no-progress", "%s on an input of size %d did not finish in %.0f s untraced, nor in %.0f s traced (%d steps so far, each slower than the last)" % (case["fn"], n, T1(n, case["fn"]), max(10.0, 10 * T1(n, case["fn"])), steps))
        elif how == "BUDGET" and tripped:
            r.fail("no-progress", "%s on an input of size %d did not finish in %.0f s untraced and exceeds the step budget B(n)=%d" % (case["fn"], n, T1(n, case["fn"]), B(n, case["fn"])))
        elif how == "BUDGET":
            r.label("calibration:finished-but-over-budget")
        elif tripped:
            r.label("slow:finished-late-inside-budget")
        else:
            ratio = steps / B(n, case["fn"])
            r.label("calibration:steps/B " + ("<=1%" if ratio <= 0.01 else "<=5%" if ratio <= 0.05 else "<=25%" if ratio <= 0.25 else ">25%"))
    s = arg if isinstance(arg, str) else (arg.get("orig") or arg.get("ir", {}).get("doc") or arg.get("src") or "")
    first = s.split("\n", 1)[0] if isinstance(s, str) else ""
    feats = []
    if isinstance(s, str) and "\n" in s and (first == "" or first.isspace()):
        feats.append("ws-first-line")
    if isinstance(s, str) and any(s.rstrip(" ").endswith(m.rstrip("\n")) or (m + "\n") in s or s.endswith(m) for m in ("Args:\n", "Returns:\n", "Parameters\n----------\n", ":param ", ":return: ")):
        feats.append("marker-no-body")
    if case["fn"] == "doctrans" and len(arg["runs"]) > 1:
        feats.append("reapplied")
    r.label("fn:" + case["fn"], *feats)
    r.nontrivial = bool(feats)
    return r


# ------------------------------------------------------------------------------------------------ layers
EXH_FNS = ("parse", "split", "extract", "adhoc", "emit_doc", "emit_orig")


def layer_exhaustive(ctx):
    L = ctx.cfg["exh_len"]
    n = 0
    complete = True
    sample_every = 101
    for length in range(0, L + 1):
        for seq in itertools.product(TOK, repeat=length):
            n += 1
            if n % ctx.nshards != ctx.shard:
                continue
            if n % 2048 == ctx.shard and ctx.expired():
                complete = False
                break
            s = "".join(seq)
            for fname in EXH_FNS:
                case = {"fn": fname, "arg": s}
                r = run_case(case, force_stage2=(n // ctx.nshards) % sample_every == 0)
                if ctx.record(case, r):
                    ctx.violation(case, r.failures)
                    return
        if not complete:
            break
    if complete:
        ctx.mark_exhaustive("exhaustive", "all sequences of <=%d tokens over the %d-token docstring alphabet (%d strings) x %d entry points" % (L, len(TOK), n, len(EXH_FNS)))
    else:
        ctx.stats.notes.append("exhaustive layer cut at deadline in shard %d" % ctx.shard)


def layer_exhaustive_typey(ctx):
    """every sequence of <=3 (quick) / <=4 (thorough) TYPEY tokens through the prose-to-type entry points"""
    L = 3 if ctx.tier == "quick" else 4
    n = 0
    complete = True
    for length in range(1, L + 1):
        for seq in itertools.product(TYPEY, repeat=length):
            n += 1
            if n % ctx.nshards != ctx.shard:
                continue
            if n % 2048 == ctx.shard and ctx.expired():
                complete = False
                break
            s = "".join(seq)
            for fname in ("adhoc", "param_doc", "param_doc_nowrap"):
                case = {"fn": fname, "arg": s}
                r = run_case(case)
                if ctx.record(case, r):
                    ctx.violation(case, r.failures)
                    return
        if not complete:
            break
    if complete:
        ctx.mark_exhaustive("exhaustive-typey", "all sequences of 1..%d tokens over the %d-token prose-to-type alphabet (%d strings) x 3 entry points" % (L, len(TYPEY), n))


PROSE = st.one_of(
    st.sampled_from(["", " ", "  \nfoo", "\nfoo", "\n\n", "   ", "\t\nx", "foo\n  \n", "Args:", "Returns:\n", ":param", ":param a", "Parameters\n----------", "x\n\n  \n\n", "``", "Defaults to", "a\n" * 5]),
    st.lists(st.sampled_from(TOK + ["foo", "bar baz", " ", "\t", "\n\n", "  \n"]), max_size=25).map("".join),
    st.text(alphabet=st.sampled_from(list(" \n\t:`.abc()")), max_size=40),
)


@st.composite
def emit_case(draw):
    ir = draw(gen_ir.interface("docstring", max_params=3, suffix=False))
    ir["doc"] = draw(PROSE)
    for _n, p in ir["params"]:
        if draw(st.integers(0, 2)) == 0:
            p["doc"] = draw(PROSE)
    if ir["returns"] is not None and draw(st.booleans()):
        ir["returns"]["doc"] = draw(PROSE)
    a = {"ir": ir, "style": draw(st.sampled_from(["rest", "google", "numpydoc"])), "indent": draw(st.integers(0, 3)), "kind": draw(st.sampled_from(["docstring", "docstring", "class", "function", "argparse"])), "ww": draw(st.booleans())}
    if draw(st.integers(0, 2)) == 0:
        a["orig"] = draw(PROSE)
    return {"fn": "emit_ir", "arg": a}


def text_case():
    soup = st.lists(st.sampled_from(TOK + ["foo", " ", "\n\n", "int", "(", ")", "Optional[", "]", "'", '"']), max_size=40).map("".join)
    typey = st.lists(st.sampled_from(TYPEY), min_size=1, max_size=14).map("".join)
    return st.one_of(
        st.builds(lambda f, s: {"fn": f, "arg": s}, st.sampled_from(["parse", "parse_top", "parse_nowrap", "split", "extract", "adhoc", "emit_doc", "emit_orig", "cst"]), st.one_of(soup, PROSE)),
        st.builds(lambda f, s: {"fn": f, "arg": s}, st.sampled_from(["adhoc", "param_doc", "param_doc_nowrap", "parse_nowrap", "extract"]), typey),
    )


def layer_hypothesis(ctx):
    ctx.run_given("emit", emit_case(), run_case, ctx.cfg["hyp"], shrink_budget=40)
    if not ctx.stats.violations:
        ctx.run_given("text", text_case(), run_case, ctx.cfg["hyp"], shrink_budget=40)


@st.composite
def doctrans_case(draw):
    m = draw(gen_prog.module(max_items=2))
    runs = draw(st.lists(st.tuples(st.sampled_from(["rest", "google", "numpydoc"]), st.booleans()), min_size=1, max_size=3))
    return {"fn": "doctrans", "arg": {"src": m["src"], "runs": [list(x) for x in runs]}}


@st.composite
def signature_case(draw):
    """hand-shaped defs / classes (positional-only, keyword-only, *args, **kwargs, defaulted self, decorators, stubs)
    straight into the function and class parsers"""
    if draw(st.booleans()):
        feat = []
        return {"fn": "fn_parse", "arg": {"src": "\n".join(draw(gen_prog.funcdef(feat=feat))) + "\n"}}
    return {"fn": draw(st.sampled_from(["class_parse", "fn_parse"])), "arg": {"src": "\n".join(draw(gen_prog.classdef())) + "\n"}}


def layer_doctrans(ctx):
    ctx.run_given("signatures", signature_case(), run_case, ctx.cfg["hyp"], shrink_budget=4)
    if not ctx.stats.violations:
        ctx.run_given("doctrans", doctrans_case(), run_case, ctx.cfg["doctrans"], shrink_budget=6)


LAYERS = [("exhaustive", layer_exhaustive), ("exhaustive-typey", layer_exhaustive_typey), ("hypothesis", layer_hypothesis), ("doctrans", layer_doctrans)]
COLLECT = lambda ctx: (st.one_of(emit_case(), text_case(), doctrans_case(), signature_case()), run_case)


def replay(case):
    return run_case(case)
