"""C05 - SQLAlchemy class / Table / hybrid forms round-trip and agree (DESIGN 4/C05)."""
import ast

from hypothesis import strategies as st

from vlib import core, gen_ir, hops
from vlib.core import Result, is_open
from vlib.gen_ir import NoneStr, descr, floats, ints, lit_member, names, plain_str, sentence
from vlib.norm import default_view, is_optional, literal_members, normdoc

ID = "C05"
RULE = (
    "a case is one generated table description (int/float/str/bool/dict columns, Optional without non-None default, "
    "Literal[str..], at most one [PK] marker, [FK(t.c)] markers, names that do / do not match the PK inference "
    "heuristic) emitted as declarative class, Table and hybrid class x 3 docstring styles x force_pk_id{T,F}; each "
    "emission is re-read from text, parsed back and the three parses are compared with each other. Non-trivial = "
    ">=3 columns incl. >=1 Optional and >=1 Literal or FK."
)
TIERS = {"quick": {"shards": 8, "n": 700, "budget_s": 200}, "thorough": {"shards": 16, "n": 3000, "budget_s": 2700}}
FLOOR = {"quick": 60, "thorough": 4000}
REQUIRED_LABELS = {"quick": ["pk:explicit", "pk:inferable", "pk:none", "has-fk", "kind:literal", "table->class"], "thorough": []}
ASSUMPTIONS = ["no SQLAlchemy import is needed: cdd works on the AST of the emitted source"]
VARIANTS = ("sqlalchemy", "sqlalchemy_table", "sqlalchemy_hybrid")
CELLS = [(s, f) for s in ("rest", "google", "numpydoc") for f in (True, False)]


def init_worker(ctx):
    hops.load()


@st.composite
def column(draw):
    k = draw(st.sampled_from(["int", "float", "str", "bool", "dict", "optint", "optstr", "optbool", "optfloat", "literal", "optliteral"]))
    p = {"doc": draw(descr)}
    d = None
    if k == "int":
        p["typ"], d = "int", draw(ints)
    elif k == "float":
        p["typ"], d = "float", draw(floats)
    elif k == "str":
        p["typ"], d = "str", draw(plain_str)
    elif k == "bool":
        p["typ"], d = "bool", draw(st.booleans())
    elif k == "dict":
        p["typ"] = "dict"
    elif k in ("optint", "optstr", "optbool", "optfloat"):
        p["typ"] = "Optional[%s]" % k[3:]
        d = NoneStr if draw(st.booleans()) else None
    else:
        ms = draw(st.lists(lit_member, min_size=2, max_size=4, unique=True))
        p["typ"] = "Literal[%s]" % ", ".join(map(repr, ms))
        d = draw(st.sampled_from(ms))
        if k == "optliteral":
            p["typ"] = "Optional[%s]" % p["typ"]
            d = None
    if d is not None and draw(st.booleans()):
        p["default"] = d
    return k, p


@st.composite
def table(draw):
    n = draw(st.integers(1, 6))
    # names that the primary-key heuristic does NOT react to (it looks for "_name", "_id", "id_" anywhere, or "id")
    # half of the tables take `rich_names` (leading underscore, camelCase, UPPER_CASE) and legal non-ASCII identifiers
    pool = names if draw(st.booleans()) else st.one_of(gen_ir.rich_names, gen_ir.rich_names, gen_ir.unicode_names)
    ns = draw(st.lists(pool.filter(lambda s: s != "id" and "_id" not in s and "_name" not in s and "id_" not in s), min_size=n, max_size=n, unique=True))
    cols = [draw(column()) for _ in ns]
    pk = draw(st.sampled_from(["none", "explicit", "inferable"]))
    if pk == "explicit":
        i = draw(st.integers(0, n - 1))
        cols[i][1]["doc"] = "[PK] " + cols[i][1]["doc"]
    elif pk == "inferable":
        i = draw(st.integers(0, n - 1))
        ns[i] = draw(st.sampled_from(["id", ns[i] + "_id", ns[i] + "_name", "id_" + ns[i], ns[i] + "_id_x"]))
        if len(set(ns)) != len(ns):
            ns[i] = ns[i] + "x_id"
    fk = False
    for i in range(n):
        if "[PK]" not in cols[i][1]["doc"] and draw(st.integers(0, 4)) == 0:
            cols[i][1]["doc"] = "[FK(%s.%s)] " % (draw(lit_member), draw(lit_member)) + cols[i][1]["doc"]
            fk = True
    doc = draw(sentence(2, 6)).capitalize() + "."
    return {"name": "foo_tbl", "doc": doc, "params": [[a, c[1]] for a, c in zip(ns, cols)], "kinds": [c[0] for c in cols], "returns": None, "pk": pk, "fk": fk}


def strategy(ctx):
    return table()


def rt(variant, case, style, force):
    ir = gen_ir.to_ir(case, name="foo_tbl")
    with core.quiet():
        src, _node = hops.emit_src(variant, ir, docstring_format=style, force_pk_id=force)
    compile(src, "<emitted>", "exec")
    with core.quiet():
        back = hops.parse_src(variant, src)
    return src, back


def count_pk(src):
    n = 0
    for node in ast.walk(ast.parse(src)):
        if isinstance(node, ast.keyword) and node.arg == "primary_key" and isinstance(node.value, ast.Constant) and node.value.value is True:
            n += 1
    return n


def check_cell(r, case, cell):
    style, force = cell
    pk = case["pk"]
    backs = {}
    if force and any(n == "id" for n, _p in case["params"]):
        # precondition (DESIGN R1): force_pk_id=True synthesises a column called `id`; a user column of the same name
        # is a collision the generator - not cdd - produced.  Counted, not checked.
        r.label("skipped:force_pk_id-with-user-id-column")
        return
    for variant in VARIANTS:
        tag = "[%s,%s,force=%d,pk=%s]" % (variant, style, force, pk)
        try:
            src, back = rt(variant, case, style, force)
        except SyntaxError as e:
            r.fail("compile", "%s %s" % (tag, e))
            continue
        except Exception as e:
            r.fail("raises", "%s %s" % (tag, core.exc_bucket(e)))
            continue
        backs[variant] = back
        npk = count_pk(src)
        if npk != 1:
            r.fail("pk-count", "%s emission has %d primary keys: %r" % (tag, npk, src[:500]))
        want = [n for n, _p in case["params"]]
        got = list(back["params"])
        added = got[len(want) :] if got[: len(want)] == want else None
        if added is None or added not in ([], ["id"]):
            # a synthesised id column may also be *prepended*
            if got[-len(want) :] == want and got[: -len(want)] == ["id"]:
                added = ["id"]
            else:
                r.fail("names", "%s want %s got %s" % (tag, want, got))
                continue
        if added == ["id"] and pk != "none" and not force:
            r.fail("id-invented", "%s an id column was added although a primary key was given/inferable (%s)" % (tag, got))
        if added == [] and pk == "none":
            r.fail("id-missing", "%s no primary key could be inferred but no id column was added" % tag)
        for (n, p), k in zip(case["params"], case["kinds"]):
            b = back["params"][n]
            wt, gt = p["typ"], b.get("typ")
            if wt == "dict":
                wt_alt = ("dict", "Optional[dict]")
            else:
                wt_alt = (wt,)
            if k in ("literal", "optliteral"):
                mw, mg = literal_members(wt), literal_members(gt)
                if mg is None or sorted(mw) != sorted(mg) or is_optional(wt) != is_optional(gt):
                    r.fail("typ", "%s %s: %r -> %r" % (tag, n, wt, gt))
                elif list(mw) != list(mg):
                    # "the same ... Enum types": the members of a SQL enumeration are ordered (their order is the sort
                    # order of the column in several databases); all three variants keep the declared order
                    r.fail("enum-member-order", "%s %s: %r -> %r" % (tag, n, wt, gt))
            elif gt not in wt_alt:
                r.fail("typ", "%s %s: %r -> %r" % (tag, n, wt, gt))
            opt = is_optional(wt) or gt == "Optional[dict]"
            wd = default_view(p, typ=("Optional[x]" if opt else wt))
            gd = default_view(b, typ=("Optional[x]" if opt else wt))
            if wd != gd:
                r.fail("default", "%s %s (%s): %r -> %r" % (tag, n, wt, wd, gd))
            wdoc, gdoc = p["doc"], b.get("doc", "") or ""
            if pk == "inferable" and gdoc.startswith("[PK]") and not wdoc.startswith("[PK]"):
                gdoc = gdoc[4:].lstrip()  # the inferred key is marked on the way back
            if normdoc(wdoc) != normdoc(gdoc):
                r.fail("doc", "%s %s: %r -> %r" % (tag, n, wdoc, gdoc))
            extra = set(b) - {"typ", "doc", "default", "x_typ"}
            if extra:
                r.fail("keys", "%s %s: keys %s" % (tag, n, sorted(map(str, extra))))
    # class <-> Table normalisation (anchor mechanism): the Table emission converted with sqlalchemy_table_to_class
    # and rendered again must parse to the same columns as the Table itself
    if "sqlalchemy_table" in backs:
        tag = "[table->class,%s,force=%d,pk=%s]" % (style, force, pk)
        try:
            cdd = hops.load()["cdd"]
            ir = gen_ir.to_ir(case, name="foo_tbl")
            with core.quiet():
                src, node = hops.emit_src("sqlalchemy_table", ir, docstring_format=style, force_pk_id=force)
                tnode = ast.parse(src).body[0]
                cnode = cdd.sqlalchemy.utils.emit_utils.sqlalchemy_table_to_class(tnode)
                csrc = hops.load()["to_code"](cnode)
                compile(csrc, "<table->class>", "exec")
                cback = cdd.sqlalchemy.parse.sqlalchemy(ast.parse(csrc).body[0])

            def cols(b):
                return [(n, p.get("typ"), default_view(p), normdoc(p.get("doc"))) for n, p in b["params"].items()]

            if cols(cback) != cols(backs["sqlalchemy_table"]):
                diff = [(x, y) for x, y in zip(cols(cback), cols(backs["sqlalchemy_table"])) if x != y][:2]
                r.fail("table-to-class", "%s columns differ: %r (names %s vs %s)" % (tag, diff, list(cback["params"]), list(backs["sqlalchemy_table"]["params"])))
            r.label("table->class")
        except SyntaxError as e:
            r.fail("table-to-class", "%s not python: %s" % (tag, e))
        except Exception as e:
            r.fail("table-to-class", "%s raises %s" % (tag, core.exc_bucket(e)))
    if len(backs) == 3:
        def strip(b):
            return [(n, {k: v for k, v in p.items() if k not in ("x_typ", "server_default")}) for n, p in b["params"].items()]

        a, b2, c = (strip(backs[v]) for v in VARIANTS)
        if not (a == b2 == c):
            diff = [(x, y, z) for x, y, z in zip(a, b2, c) if not (x == y == z)][:2]
            r.fail("variants-disagree", "[%s,force=%d,pk=%s] %r" % (style, force, pk, diff))


def oracle(case):
    r = Result()
    for cell in case.get("cells") or CELLS:
        check_cell(r, case, tuple(cell))
    r.label("pk:" + case["pk"], "n_cols=%d" % len(case["params"]))
    if case["fk"]:
        r.label("has-fk")
    for k in case["kinds"]:
        r.label("kind:" + k)
    ks = case["kinds"]
    r.nontrivial = len(ks) >= 3 and any(k.startswith("opt") for k in ks) and (case["fk"] or any("literal" in k for k in ks))
    return r


def layer_main(ctx):
    ctx.run_given("roundtrip", strategy(ctx), oracle, ctx.cfg["n"])


LAYERS = [("roundtrip", layer_main)]


def replay(case):
    return oracle(case)
