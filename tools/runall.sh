#!/bin/bash
# usage: tools/runall.sh <tier> [seed]   - every registered check once; prints one line per check
cd "$(dirname "$0")/.."
TIER=${1:-quick}; export VERIF_SEED=${2:-1}
for c in $(/venv/bin/python -c "import json; print(' '.join(x['property_id'] for x in json.load(open('MANIFEST.json'))['checks']))"); do
  s=$(date +%s); out=$(./check $c $TIER 2>&1); rc=$?; e=$(date +%s)
  echo "$c rc=$rc $((e-s))s $(echo "$out" | grep -v '^KNOWN-FINDING' | tail -1 | cut -c1-200)"
done
