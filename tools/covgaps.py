#!/venv/bin/python
"""
Development aid (not a registered check): which lines of a property's anchor files does its quick check never
execute?  An un-executed branch is a place where a change cannot be noticed by that check, i.e. a generator gap.

  tools/covgaps.py run  C06 [C07 ...]     run `./check Cxx quick` with coverage.py measuring every (sub)process
  tools/covgaps.py show C06 [-a]          missing lines of the anchor files (-a: every cdd file touched)

Data goes to $COVGAPS_DIR (default /root/vscratch/cov), never into /verif; evidence/Cxx.json IS rewritten by `run`.
"""
import json
import os
import subprocess
import sys

ROOT = os.path.dirname(os.path.dirname(os.path.abspath(__file__)))
REPO = os.environ.get("VERIF_REPO", "/repo")
BASE = os.environ.get("COVGAPS_DIR", "/root/vscratch/cov")


def prep():
    os.makedirs(os.path.join(BASE, "site"), exist_ok=True)
    for path, text in (
        (os.path.join(BASE, "site", "sitecustomize.py"), "import coverage\ncoverage.process_startup()\n"),
        (os.path.join(BASE, "rc"), "[run]\nbranch = True\nparallel = True\nsource = %s/cdd\ndata_file = %s/data/${COVTAG}/.coverage\nomit = %s/cdd/tests/*\n" % (REPO, BASE, REPO)),
    ):
        if not os.path.exists(path) or open(path).read() != text:
            with open(path, "w") as f:
                f.write(text)


def run(pid):
    d = os.path.join(BASE, "data", pid)
    subprocess.call(["rm", "-rf", d])
    os.makedirs(d)
    env = dict(os.environ, COVTAG=pid, COVERAGE_PROCESS_START=os.path.join(BASE, "rc"), PYTHONPATH=os.path.join(BASE, "site"), VERIF_SEED=os.environ.get("VERIF_SEED", "1"))
    with open(os.path.join(d, "out.txt"), "w") as out:
        rc = subprocess.call([os.path.join(ROOT, "check"), pid, "quick"], cwd=ROOT, env=env, stdout=out, stderr=subprocess.STDOUT)
    subprocess.call([sys.executable, "-m", "coverage", "combine", "--rcfile=" + os.path.join(BASE, "rc"), "-q", "."], cwd=d, env=env)
    print(pid, "rc=%d" % rc)


def show(pid, everything):
    anchors = {}
    for line in open(os.path.join(ROOT, "properties.jsonl")):
        p = json.loads(line)
        anchors[p["id"]] = p["anchors"]["files"]
    d = os.path.join(BASE, "data", pid)
    inc = REPO + "/cdd/*" if everything else ",".join(os.path.join(REPO, f) for f in anchors[pid])
    subprocess.call([sys.executable, "-m", "coverage", "report", "--data-file=" + os.path.join(d, ".coverage"), "-m", "--include=" + inc])


if __name__ == "__main__":
    cmd, ids = sys.argv[1], [a for a in sys.argv[2:] if not a.startswith("-")]
    prep()
    for pid in ids:
        run(pid) if cmd == "run" else show(pid, "-a" in sys.argv)
