#!/venv/bin/python
"""
Development aid (not a registered check): automatic sensitivity sweep.

Generates small syntactic changes (one per mutant) of the property anchor files of /repo, keeps those under which the
repository's own pinned test-suite still passes exactly as before, and runs the QUICK check of every property that is
anchored in the changed file against the changed tree.  A surviving change is either equivalent (behaviour identical
on the property's domain) or a gap of the generators / oracles - reading the survivors is how gaps are found without
waiting for a hand-written seed.

  tools/mutsweep.py gen  N [seed]          choose N mutants (balanced over files), write $MS/mutants.json
  tools/mutsweep.py run  [J]               evaluate all not-yet-evaluated mutants with J parallel jobs, $MS/results.jsonl
  tools/mutsweep.py show                   table: per property killed / survived, and the list of survivors
  tools/mutsweep.py diff ID                print the change of mutant ID

$MS defaults to /root/vscratch/mutsweep (never inside /verif). Scratch trees live under /dev/shm and are removed.
"""
import ast
import json
import os
import random
import shutil
import subprocess
import sys
import xml.etree.ElementTree as ET
from collections import defaultdict
from multiprocessing import Pool

ROOT = os.path.dirname(os.path.dirname(os.path.abspath(__file__)))
REPO = "/repo"
MS = os.environ.get("MS", "/root/vscratch/mutsweep")

CMP = {ast.Eq: ast.NotEq, ast.NotEq: ast.Eq, ast.Lt: ast.LtE, ast.LtE: ast.Lt, ast.Gt: ast.GtE, ast.GtE: ast.Gt,
       ast.In: ast.NotIn, ast.NotIn: ast.In, ast.Is: ast.IsNot, ast.IsNot: ast.Is}
STRIPS = {"strip", "rstrip", "lstrip"}
NOISE_KW = {"lineno", "col_offset", "end_lineno", "end_col_offset", "type_comment", "ctx", "type_ignores", "type_params"}


def anchors():
    f2p = defaultdict(list)
    for line in open(os.path.join(ROOT, "properties.jsonl")):
        p = json.loads(line)
        for f in p["anchors"]["files"]:
            f2p[f].append(p["id"])
    return f2p


def seg(src_lines, node):
    """(start_offset, end_offset) of node in the joined text"""
    offs = [0]
    for l in src_lines:
        offs.append(offs[-1] + len(l.encode()))
    return offs[node.lineno - 1] + node.col_offset, offs[node.end_lineno - 1] + node.end_col_offset


def candidates(path):
    src = open(path, "rb").read()
    text = src.decode()
    tree = ast.parse(text)
    lines = text.splitlines(keepends=True)
    out = []

    def add(node, new_node_or_text, kind):
        a, b = seg(lines, node)
        new = new_node_or_text if isinstance(new_node_or_text, str) else "(" + ast.unparse(new_node_or_text) + ")"
        old = src[a:b].decode()
        if new != old and new != "(" + old + ")":
            out.append({"a": a, "b": b, "old": old, "new": new, "kind": kind, "line": node.lineno})

    import copy

    for node in ast.walk(tree):
        if isinstance(node, ast.Compare) and len(node.ops) == 1 and type(node.ops[0]) in CMP:
            n = copy.deepcopy(node)
            n.ops = [CMP[type(node.ops[0])]()]
            add(node, n, "cmp")
        elif isinstance(node, ast.BoolOp):
            n = copy.deepcopy(node)
            n.op = ast.Or() if isinstance(node.op, ast.And) else ast.And()
            add(node, n, "boolop")
            if len(node.values) >= 2:
                n = copy.deepcopy(node)
                n.values = n.values[:-1]
                add(node, n if len(n.values) > 1 else n.values[0], "drop-operand")
        elif isinstance(node, ast.UnaryOp) and isinstance(node.op, ast.Not):
            add(node, node.operand, "drop-not")
        elif isinstance(node, ast.Constant) and isinstance(node.value, bool):
            add(node, "False" if node.value else "True", "bool")
        elif isinstance(node, ast.Constant) and type(node.value) is int and -3 <= node.value <= 100:
            add(node, str(node.value + 1), "int+1")
            if node.value > 0:
                add(node, str(node.value - 1), "int-1")
        elif isinstance(node, ast.Call) and isinstance(node.func, ast.Attribute) and node.func.attr in STRIPS and not node.keywords:
            add(node, node.func.value, "drop-strip")
        elif isinstance(node, ast.Call) and node.keywords and len(node.keywords) >= 1 and not any(k.arg is None for k in node.keywords):
            # forget one keyword argument (only for calls with more than one argument in total)
            if len(node.keywords) + len(node.args) >= 2:
                for i in range(len(node.keywords)):
                    kw = node.keywords[i]
                    if kw.arg in NOISE_KW or kw.arg.startswith(("expr", "identifier", "stmt")) or (isinstance(kw.value, ast.Constant) and kw.value.value is None):
                        continue
                    n = copy.deepcopy(node)
                    del n.keywords[i]
                    add(node, n, "drop-kw:" + node.keywords[i].arg)
        elif isinstance(node, ast.IfExp):
            n = copy.deepcopy(node)
            n.body, n.orelse = n.orelse, n.body
            add(node, n, "ifexp-swap")
        elif isinstance(node, ast.BinOp) and isinstance(node.op, (ast.Add, ast.Sub)):
            n = copy.deepcopy(node)
            n.op = ast.Sub() if isinstance(node.op, ast.Add) else ast.Add()
            add(node, n, "addsub")
        elif isinstance(node, ast.Subscript) and isinstance(node.slice, ast.Slice):
            sl = node.slice
            for attr in ("lower", "upper"):
                if getattr(sl, attr) is not None:
                    n = copy.deepcopy(node)
                    setattr(n.slice, attr, None)
                    add(node, n, "slice-drop-" + attr)
        elif isinstance(node, (ast.Break, ast.Continue)):
            add(node, "continue" if isinstance(node, ast.Break) else "break", "break-continue")
        elif isinstance(node, ast.If) and not node.orelse and isinstance(node.test, ast.AST):
            # `if c:` -> `if True:` keeps the body always
            a, b = seg(lines, node.test)
            out.append({"a": a, "b": b, "old": src[a:b].decode(), "new": "True", "kind": "if-true", "line": node.lineno})
    # docstring / annotation constants are walked too, but only bool/int constants are touched
    return out


def gen(n, seed):
    rnd = random.Random(seed)
    f2p = anchors()
    per_file = {}
    for f in sorted(f2p):
        p = os.path.join(REPO, f)
        if os.path.exists(p):
            c = candidates(p)
            rnd.shuffle(c)
            per_file[f] = c
    chosen = []
    # round-robin over files, weighted by number of properties anchored there
    order = sorted(per_file)
    while len(chosen) < n and any(per_file.values()):
        for f in order:
            k = 1 + (len(f2p[f]) > 2)
            for _ in range(k):
                if per_file[f] and len(chosen) < n:
                    m = per_file[f].pop()
                    m["file"] = f
                    m["props"] = f2p[f]
                    m["id"] = "m%04d" % len(chosen)
                    chosen.append(m)
    os.makedirs(MS, exist_ok=True)
    existing = []
    mp = os.path.join(MS, "mutants.json")
    if os.path.exists(mp):
        existing = json.load(open(mp))
        keys = {(m["file"], m["a"], m["b"], m["new"]) for m in existing}
        fresh = [m for m in chosen if (m["file"], m["a"], m["b"], m["new"]) not in keys]
        for i, m in enumerate(fresh):
            m["id"] = "m%04d" % (len(existing) + i)
        chosen = existing + fresh
    json.dump(chosen, open(mp, "w"), indent=0)
    print("mutants:", len(chosen), "new:", len(chosen) - len(existing))


def suite_ok(d):
    junit = os.path.join(d, "junit.xml")
    env = dict(os.environ, PYTHONPATH=d, PYTHONDONTWRITEBYTECODE="1")
    try:
        subprocess.run(["/venv/bin/python", "-m", "pytest", "-q", "-p", "no:cacheprovider", "--timeout=300",
                        "--continue-on-collection-errors", "--junitxml=" + junit,
                        "--deselect", "cdd/tests/test_compound/test_exmod.py",
                        ], cwd=d, env=env, stdout=subprocess.DEVNULL, stderr=subprocess.DEVNULL, timeout=1500)
    except subprocess.TimeoutExpired:
        return False, "suite-timeout"
    base = set(json.load(open("/root/.vp/BASELINE.json"))["stable_pass"])
    ok = set()
    try:
        for tc in ET.parse(junit).iter("testcase"):
            if not any(c.tag in ("failure", "error", "skipped") for c in tc):
                ok.add(tc.get("classname") + "::" + tc.get("name"))
    except Exception as e:  # noqa
        return False, "no-junit"
    missing = sorted(t for t in base - ok if "test_exmod.py" not in t and ".test_exmod." not in t)
    return (not missing), (missing[0] if missing else "")


def evaluate(m):
    d = "/dev/shm/ms_%s" % m["id"]
    shutil.rmtree(d, ignore_errors=True)
    subprocess.check_call(["rsync", "-a", "--exclude", ".git", "--exclude", "__pycache__", "--exclude", "_seed", REPO + "/", d + "/"])
    res = {"id": m["id"], "file": m["file"], "line": m["line"], "kind": m["kind"], "old": m["old"][:120], "new": m["new"][:120]}
    try:
        p = os.path.join(d, m["file"])
        src = open(p, "rb").read()
        assert src[m["a"]:m["b"]].decode() == m["old"], "stale"
        new = src[:m["a"]] + m["new"].encode() + src[m["b"]:]
        try:
            compile(new, p, "exec")
        except SyntaxError:
            res["status"] = "syntax"
            return res
        open(p, "wb").write(new)
        ok, why = suite_ok(d)
        if not ok:
            res["status"] = "suite"
            res["why"] = why
            return res
        res["status"] = "survived-suite"
        res["checks"] = {}
        out = os.path.join(d, "_out")
        for pid in m["props"]:
            env = dict(os.environ, VERIF_REPO=d, VERIF_OUT=out, VERIF_SEED=os.environ.get("VERIF_SEED", "1"))
            try:
                r = subprocess.run([os.path.join(ROOT, "check"), pid, "quick"], cwd=ROOT, env=env, capture_output=True, text=True, timeout=1200)
                rc = r.returncode
                tail = [l for l in r.stdout.splitlines() if not l.startswith("KNOWN-FINDING")][-1:]
            except subprocess.TimeoutExpired:
                rc, tail = -1, ["timeout"]
            res["checks"][pid] = rc
            if rc not in (0, 1):
                res.setdefault("notes", []).append(pid + ": " + " ".join(tail)[:200])
        res["killed_by"] = sorted(k for k, v in res["checks"].items() if v == 1)
        return res
    except Exception as e:  # noqa
        res["status"] = "error"
        res["why"] = repr(e)[:200]
        return res
    finally:
        shutil.rmtree(d, ignore_errors=True)


def run(jobs):
    ms = json.load(open(os.path.join(MS, "mutants.json")))
    rp = os.path.join(MS, "results.jsonl")
    done = set()
    if os.path.exists(rp):
        done = {json.loads(l)["id"] for l in open(rp)}
    todo = [m for m in ms if m["id"] not in done]
    print("to evaluate:", len(todo), flush=True)
    with Pool(jobs) as pool, open(rp, "a") as f:
        for r in pool.imap_unordered(evaluate, todo):
            f.write(json.dumps(r) + "\n")
            f.flush()
            print(r["id"], r["file"], r["line"], r["kind"], r["status"], r.get("killed_by", ""), flush=True)


def show():
    rs = [json.loads(l) for l in open(os.path.join(MS, "results.jsonl"))]
    st = defaultdict(int)
    for r in rs:
        st[r["status"]] += 1
    print(dict(st))
    per = defaultdict(lambda: [0, 0])
    surv = []
    for r in rs:
        if r["status"] != "survived-suite":
            continue
        if r["killed_by"]:
            for p in r["killed_by"]:
                per[p][0] += 1
        else:
            surv.append(r)
        for p, rc in r["checks"].items():
            if rc != 1:
                per[p][1] += 1
    print("property: killed / not-killed (of suite-surviving mutants in its anchor files)")
    for p in sorted(per):
        print(" ", p, per[p][0], "/", per[p][1])
    print("suite-survivors:", sum(1 for r in rs if r["status"] == "survived-suite"), "killed by >=1 check:", sum(1 for r in rs if r.get("killed_by")))
    print("--- survivors of every check ---")
    for r in sorted(surv, key=lambda r: (r["file"], r["line"])):
        print(r["id"], r["file"] + ":" + str(r["line"]), r["kind"], "|", r["old"].replace("\n", " ")[:70], "=>", r["new"].replace("\n", " ")[:70], r.get("notes", ""))


if __name__ == "__main__":
    cmd = sys.argv[1]
    if cmd == "gen":
        gen(int(sys.argv[2]), int(sys.argv[3]) if len(sys.argv) > 3 else 1)
    elif cmd == "run":
        run(int(sys.argv[2]) if len(sys.argv) > 2 else 12)
    elif cmd == "show":
        show()
    elif cmd == "diff":
        m = next(x for x in json.load(open(os.path.join(MS, "mutants.json"))) if x["id"] == sys.argv[2])
        print(m["file"], "line", m["line"], m["kind"])
        print("-", m["old"])
        print("+", m["new"])
