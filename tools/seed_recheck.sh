#!/bin/bash
# usage: tools/seed_recheck.sh [tier]  - applies every seeded/<name>/patch.diff to a scratch copy of /repo and runs the check named by the prefix
cd "$(dirname "$0")/.."; TIER=${1:-quick}
for S in seeded/*/; do
  N=$(basename "$S"); C=${N%%-*}
  D=$(mktemp -d /dev/shm/seedrc_XXXXXX)
  if [ -f "$S/PIN" ]; then
    # the seeded change only has an effect on an earlier repository commit (a later fix: commit removed the mutated code from the path)
    git -C /repo archive "$(cat "$S/PIN")" | tar -x -C "$D"; N="$N@$(cat "$S/PIN")"
  else
    rsync -a --exclude .git --exclude __pycache__ /repo/ "$D/"
  fi
  if ! ( cd "$D" && patch -p1 -s < "$OLDPWD/$S/patch.diff" ); then echo "$N PATCH-DOES-NOT-APPLY"; rm -rf "$D"; continue; fi
  s=$(date +%s); out=$(VERIF_REPO="$D" VERIF_OUT="$D/_out" ./check "$C" "$TIER" 2>&1); rc=$?; e=$(date +%s)
  echo "$N $C $TIER rc=$rc $((e-s))s"
  rm -rf "$D"
done

