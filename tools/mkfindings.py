#!/venv/bin/python
"""Development-time generator of known_findings.json (the checks only ever *read* that file).

Entry: id, properties, status open|fixed, commit (fixed), what_fails, witnesses {property: [case, ...]}.
For a fixed entry `record` is the line "fixed: property=<id> <commit> <what failed>".
A witness is a case in the replay format of that property's check; it is replayed *strictly*
(no relaxation): an open finding's witness must still fail (-> KNOWN-FINDING line), a fixed
finding's witness must pass (-> otherwise VIOLATION).
"""
import json
import os

ROOT = os.path.dirname(os.path.dirname(os.path.abspath(__file__)))
F = []


def I(params, returns=None, doc="Some summary.", kinds=None, **kw):
    d = {"name": "Foo", "doc": doc, "params": params, "kinds": kinds or ["?"] * len(params), "returns": returns}
    d.update(kw)
    return d


def finding(fid, props, status, what, commit=None, witnesses=None):
    e = {"id": fid, "properties": props, "status": status, "what_fails": what, "witnesses": witnesses or {}}
    if status == "fixed":
        e["commit"] = commit
        e["record"] = "fixed: property=%s %s %s" % (",".join(props), commit, what)
    F.append(e)


A5 = ["a", {"typ": "int", "doc": "the a", "default": 5}]
RET = {"typ": "int", "doc": "the r"}

# ------------------------------------------------------------------ fixed
finding("P1", ["C11", "C07"], "fixed", "docstring.emit never returns when the first line of the header doc is whitespace-only (doc='  \\nfoo')", "8c69095")
finding("P2", ["C10"], "fixed", "function.parse of a partially documented signature returns the undocumented parameters in PYTHONHASHSEED-dependent order", "cd4d9d5")
finding("P3", ["C18"], "fixed", "first-in-process import of cdd.sqlalchemy.parse / compound.gen / parser_utils raises ImportError (parser import cycle)", "a0d7e09")
finding("P4", ["C18"], "fixed", "first-in-process import of cdd.sqlalchemy.utils.emit_utils / compound.openapi.gen_openapi raises AttributeError (half-initialised module)", "e02d857")
finding("P5", ["C06"], "fixed", "json_schema emit of an interface with empty header doc writes \"description\": null (invalid schema)", "8235e21")
finding(
    "P6", ["C01", "C03"], "fixed", "ReST: int default -5 comes back as float -5.0", "b9b9bf0",
    {"C01": [I([["a", {"typ": "int", "doc": "the a", "default": -5}]], cells=[["rest", True, False, True, False], ["rest", True, True, True, True]])]},
)
finding("P7", ["C07"], "fixed", "doctrans rewrites `def n(self, r, s=3)` as `def n(self, r: int, s: int)`: defaults, *args, **kwargs, kw-only marker lost", "e7ee1ca")
finding("P8", ["C05"], "fixed", "sqlalchemy_hybrid emit -> parse raises ('foo_tbl' != '__table__')", "0ec74e9")
finding(
    "P10", ["C01", "C02", "C03"], "fixed", "None default comes back as the string '(None)' after a docstring round-trip", "2b0290f",
    {"C01": [I([["a", {"typ": "Optional[int]", "doc": "the a", "default": "```(None)```"}]], cells=[[s, True, p, True, False] for s in ("rest", "google", "numpydoc") for p in (True, False)])]},
)
finding(
    "P11", ["C01", "C02"], "fixed", "numpydoc: a parameter whose type is not written loses its name and description", "41fbd41",
    {"C01": [I([["a", {"typ": "int", "doc": "the a"}], ["b", {"typ": "str", "doc": "the b", "default": "x"}]], cells=[["numpydoc", True, False, False, False]])]},
)
finding("P17a", ["C19"], "fixed", "gen --emit function raises (function_type missing)", "eb15f64")
finding("P17b", ["C19"], "fixed", "gen --emit pydantic raises KeyError", "e993056")
finding("P17c", ["C19"], "fixed", "gen --emit-and-infer-imports writes `from a import b from c import d` / raises when a symbol needs no import", "393cc40")
finding("P18", ["C20"], "fixed", "exmod --emit sqlalchemy* --emit-sqlalchemy-submodule --dry-run creates sqlalchemy_mod/ in an existing output dir", "fc865d0")
finding("P36", ["C19"], "fixed", "gen --parse argparse raises ModuleNotFoundError: cdd.argparse", "6d379ac")
finding(
    "P39", ["C01"], "fixed", "numpydoc with word_wrap: continuation line of a >100-char description starts in column 0 and parses back as an extra parameter", "a2d7a0f",
    {"C01": [I([["a", {"typ": "int", "doc": " ".join(["alpha beta gamma delta"] * 6)}]], cells=[["numpydoc", True, False, True, True]])]},
)

finding(
    "P44", ["C06"], "fixed", "json_schema emit raises AttributeError for a single-member Literal['x']", "f2a67e1",
    {"C06": [I([["q", {"typ": "Literal['aqaaw']", "doc": "alpha."}]])]},
)

finding("P45", ["C10"], "fixed", "gen with --prepend leaks the prepended imports into cdd.compound.gen's globals: `import json as path` makes every later gen call in the process raise AttributeError", "a892f8f")

finding(
    "P52", ["C13"], "fixed", "sync_properties with a method parameter `b` as target rewrites the 'b' inside a class attribute's Literal['a', 'b'] annotation instead", "31295d5",
    {"C13": [{"isrc": "def f(p: List[str] = None):\n    return 1\n", "osrc": "class D(object):\n    gd: Literal['a', 'b'] = 0.5\n\n    def m(cls, b=-2, w=None):\n        return -2\n", "ip": ["f.p", "arg", ["p", "List[str]", "None"], {}], "op": ["D.m.b", "arg", ["b", None, "-2"], {"idx": 0, "names": ["b", "w"], "hasdef": True, "first": "cls"}], "wrap": None, "eval": False}]},
)
finding(
    "P53", ["C13"], "fixed", "sync_properties input path `Q.v` resolves to the parameter `v` of an earlier unrelated function: the wrong annotation is copied", "225871b",
    {"C13": [{"isrc": "def b(m=None, v: str=None):\n    return None\n\nclass Q(object):\n    v: int = 0.5\n", "osrc": "class J(object):\n    def az0(cls, y, ffyniy: str = 0.5):\n        return 1\n", "ip": ["Q.v", "attr", ["v", "int", "0.5"], {}], "op": ["J.az0.ffyniy", "arg", ["ffyniy", "str", "0.5"], {"idx": 1, "names": ["y", "ffyniy"], "hasdef": True, "first": "cls"}], "wrap": None, "eval": False}]},
)

finding("P54", ["C12"], "fixed", "sync creates a missing class file as `class <truth's name>` instead of --class-name; a missing function file raises TypeError", "b730503")

finding("P55", ["C19"], "fixed", "gen with --imports-from-file and --emit-and-infer-imports writes `from typing import *from sqlalchemy import ...` (SyntaxError)", "211555b")

finding("P38", ["C19", "C03"], "fixed", "argparse_ast IR has no 'returns' key; json_schema/sqlalchemy emitters raise KeyError on it (gen --parse argparse --emit json_schema)", "4d775b6")

finding(
    "P58", ["C01"], "fixed", "word_wrap splits a hyphenated string default ('AA-AA') inside the 'Defaults to' sentence over two lines: it comes back as 'AA- AA' (found by the thorough tier)", "5739e24",
    {"C01": [I([["a", {"typ": "int", "doc": " ".join(["alpha"] * 10)}], ["a0", {"typ": "str", "doc": " ".join(["alpha"] * 12), "default": "AA-AA"}]], doc="", cells=[["rest", True, True, True, True], ["rest", True, False, False, True], ["numpydoc", True, False, True, True]])]},
)

finding(
    "P62", ["C13"], "fixed", "sync_properties of a class attribute into a same-named function parameter overwrites the default of ANOTHER parameter (defaults indexed from the front): A.a00 -> def a(a00, a, a0, b=-2) sets b=1 (found by the thorough tier)", "98d1416",
    {"C13": [{"isrc": "class A(object):\n    a00: int = 1\n", "osrc": "def a(a00, a, a0, b=-2):\n    return 1\n", "ip": ["A.a00", "attr", ["a00", "int", "1"], {}], "op": ["a.a00", "arg", ["a00", None, None], {"idx": 0, "names": ["a00", "a", "a0", "b"], "hasdef": True, "first": None}], "wrap": None, "eval": False},
             {"isrc": "class A(object):\n    a090: int = 7\n", "osrc": "def a(d1m, lk=1, u=None, a090=None, a=None):\n    return 1\n", "ip": ["A.a090", "attr", ["a090", "int", "7"], {}], "op": ["a.a090", "arg", ["a090", None, "None"], {"idx": 3, "names": ["d1m", "lk", "u", "a090", "a"], "hasdef": True, "first": None}], "wrap": None, "eval": False}]},
)

# ------------------------------------------------------------------ open
finding("P9", ["C12"], "open", "sync leaves function and argparse targets that differ from the truth untouched ('unchanged'); Class.method targets get a new top-level def appended on every run; (repair would break 4 pinned test_conformance tests)")
finding("P12", ["C01", "C08"], "open", "string default '' is emitted as 'Defaults to' and lost; string defaults containing '.' are truncated; a string default that itself contains a `Defaults to X` fragment is taken apart by the same prose scanner")
finding("P13", ["C02", "C03", "C04"], "open", "argparse: a required parameter without default re-parses with the zero value of its type; single-member Literal loses choices and comes back str; bool without default comes back Optional[bool]; types outside scalar/Optional/Literal/List fall back to str")
finding("P14", ["C03", "C12"], "open", "`a: int` without default -> function hop (=None) -> class/pydantic hop gives Optional[int]")
finding("P15", ["C06"], "open", "Literal pattern 'x|yy' is unanchored: also accepts superstrings such as 'xx' and 'axb'")
finding("P16", ["C16"], "open", "openapi_bulk: component key is table_name.title() ('Foo_Bar') while routes reference the class name ('FooBar'): dangling $ref")
finding("P17d", ["C19"], "open", "gen --emit sqlalchemy* with a name template defines `Foo` but exports the templated name in __all__")
finding("P19", ["C15"], "open", "doctrans deletes the docstring of an async def (prose lost; the erased-AST oracle of C07 is not affected)")
finding("P20", ["C15"], "open", "ReST has no end-of-section notion: footer lines of a ReST docstring (original, or produced by converting a docstring with a footer to ReST) are absorbed into the last :type:/:rtype: value")
finding(
    "P21", ["C01", "C08"], "open", "google/numpydoc: once any parameter has a default the return entry acquires an invented default",
    witnesses={"C01": [I([A5], RET, cells=[["google", True, False, True, False]])]},
)
finding(
    "P22", ["C01"], "open", "google/numpydoc: return entry but no parameters: section header glued to the type line, return type lost",
    witnesses={"C01": [I([], RET, cells=[["google", True, False, True, False]])]},
)
finding(
    "P23", ["C01"], "open", "numpydoc return entry without a type: 'Returns'/'-------' come back as two parameters (or IndexError)",
    witnesses={"C01": [I([["a", {"typ": "int", "doc": "the a"}]], RET, cells=[["numpydoc", True, False, False, False]])]},
)
finding(
    "P24", ["C01", "C02"], "open", "ReST, types not in the docstring, Defaults-to prose kept by the parser, code default (np.zeros(1)) on a later parameter: ValueError from literal_eval",
    witnesses={"C01": [I([["a", {"typ": "int", "doc": "alpha"}], ["b", {"typ": "np.ndarray", "doc": "alpha", "default": "(np.zeros(0))"}]], cells=[["rest", True, True, False, False]])]},
)
finding(
    "P40", ["C01"], "open", "numpydoc with word_wrap: a 'Defaults to X' sentence that is wrapped between 'Defaults' and 'to' is not recognised, the default is lost",
    witnesses={"C01": [I([["ok", {"typ": "Optional[bool]", "doc": "for name for alpha count weight factor shape input window window factor mode output gamma", "default": True}]], cells=[["numpydoc", True, False, True, True]])]},
)
finding("P25", ["C02", "C08", "C15"], "open", "numpydoc docstrings embedded in indented code are not recognised: descriptions, header and return are lost")
finding("P41", ["C02", "C08"], "open", "google docstrings embedded in indented code: the return entry is not recognised (presence / type / description of the return entry are lost or merged)")
finding("P42", ["C02", "C08", "C05"], "open", "docstring emit at indent_level>0 inserts a blank line after the first line when it is followed by a single newline: with an empty header `Args:` is separated from its entries and google descriptions are lost (2 sqlalchemy emit tests pin the blank line)")
finding("P43", ["C02"], "open", "code-quoted default in a signature format: class/function emit it as the string '```(np.zeros(9))```' and the parser then drops the parameter's type; the un-back-ticked form '(np.zeros(9))' loses its parentheses (class) or raises ValueError (function). Excluded from C02's generator by construction (counted), exercised by C08/C14")
finding("P46", ["C08"], "open", "sqlalchemy declarative class: the header doc acquires more trailing blank/indented lines on every emit->parse round")
finding("P47", ["C08"], "open", "description containing a type-hint trigger word or a 'default(s) to/is' fragment: the prose-derived type/default competes with the declared one, the default is re-typed (0 -> '0') and a terminal full stop appears only on the following round")
finding("P48", ["C15"], "open", "docstring whose section's last line is the end of the text (no trailing newline): the splitter returns that line (or everything after the first character) as *footer*; on conversion the parameter is duplicated")
finding("P49", ["C15"], "open", "numpydoc (and google after a Returns section) has no end-of-section notion: footer text after the section (also 'See Also\\n--------') is parsed as further parameters or absorbed into the return entry, in originals and in converted docstrings")
finding("P50", ["C15"], "open", "ReST docstring with `:return:` followed by `:rtype:`: the splitter cuts the `:rtype:` line off the section and returns it as footer; converting such a docstring (to any style) appends a duplicate `:rtype:` line")
finding("P51", ["C15"], "open", "header/args/footer split: the boundary between section and footer is misplaced by a few characters (numpydoc: the last description line or the return type's tail lands in the footer; with the unindented section as `current` the returned section is truncated); the three parts still tile the original exactly")
finding("P56", ["C20"], "open", "exmod --blacklist <pkg>.<sub> is ignored for a top-level package (the path compared is built as '.sub', never the FQN): the black-listed sub-package is emitted; --whitelist <pkg>.<sub> emits nothing at all")
finding("P57", ["C16", "C05"], "open", "sqlalchemy parse of a class whose docstring documents the columns loses the [PK]/[FK] markers (the docstring description wins the merge); gen_routes then falls back to the FIRST column as primary key")
finding(
    "P59", ["C13"], "open", "sync_properties: one input property used for two outputs in a single call with a wrap template is wrapped twice for the second output (the wrap rewrites the input node in place): Optional[Optional[float]]",
    witnesses={"C13": [{"multi": True, "eval": False, "wrap": "Optional[{output_param}]", "isrc": "class Q(object):\n    v: float = 0.5\n", "osrc": "class T(object):\n    a: str = 'x'\n\n    def m(self, p: int = 1, q=None):\n        return 1\n", "pairs": [[["Q.v", "attr", ["v", "float", "0.5"], {}], ["T.a", "attr", ["a", "str", "'x'"], {"idx": 0, "names": ["a"], "hasdef": True, "first": None}]], [["Q.v", "attr", ["v", "float", "0.5"], {}], ["T.m.p", "arg", ["p", "int", "1"], {"idx": 0, "names": ["p", "q"], "hasdef": True, "first": "self"}]]]}]},
)
finding(
    "P60", ["C02"], "open", "google docstring whose LAST entry has an empty description (`beta (str):`): the entry is read back as part of the header",
    witnesses={"C02": [I([["a", {"typ": "int", "doc": "the a"}], ["zeta", {"typ": "int", "default": 3}], ["beta", {"typ": "str", "default": "x"}]], cells=[[0, "google", True]])]},
)
finding(
    "P61", ["C02"], "open", "function with a google docstring: once an earlier entry carries 'Defaults to', an entry with an EMPTY description gets the zero value of its type forced as default, and that overrides the real default of the signature (1e-07 -> 0.0)",
    witnesses={"C02": [I([["z", {"typ": "str", "doc": "model output.", "default": "A"}], ["u", {"typ": "float", "default": 1e-07}], ["a", {"typ": "float", "default": 1e-07}]], cells=[[2, "google", True]])]},
)
finding(
    "P63", ["C01", "C02"], "open", "ReST + word_wrap: a string default with inner blanks that is wrapped inside its quotes ('Defaults to \"hello\\n    wide world\"') comes back with the line break / a doubled blank inside the value (found by the wrap-boundary sweep)",
    witnesses={"C01": [I([["x", {"typ": "str", "doc": "weight re-use that well-known well-known with factor weight well-kn", "default": "hello wide world"}]], cells=[["rest", True, False, True, True]])]},
)
finding(
    "P64", ["C13"], "open", "sync_properties with two pairs in one call: the node copied from the input keeps the INPUT's location; when the second pair's output path equals the first pair's input path (same class/attribute names in both modules) the copied node is rewritten instead of the real target (found by the thorough tier)",
    witnesses={"C13": [{'isrc': 'from typing import *\n\nclass A(object):\n    a: int = 1\n\n    def a_m(self, a):\n        return 1\n\nclass A00000000(object):\n    a00: int = 1\n\n    def a(self, a):\n        return 1\n\n', 'osrc': 'from typing import *\n\nclass A(object):\n    a: int = 1\n    b: int = 1\n    c: int = 1\n\n    def a_m(self, b, c, *, a):\n        return 1\n\nclass A00000000(object):\n    a00: int = 1\n\n    def a(self, a):\n        return 1\n\n', 'pairs': [[['A00000000.a00', 'attr', ['a00', 'int', '1'], {'idx': 0, 'names': ['a00'], 'hasdef': True, 'first': None}], ['A.b', 'attr', ['b', 'int', '1'], {'idx': 1, 'names': ['a', 'b', 'c'], 'hasdef': True, 'first': None}]], [['A.a', 'attr', ['a', 'int', '1'], {'idx': 0, 'names': ['a'], 'hasdef': True, 'first': None}], ['A00000000.a00', 'attr', ['a00', 'int', '1'], {'idx': 0, 'names': ['a00'], 'hasdef': True, 'first': None}]]], 'eval': False, 'wrap': None, 'multi': True}]},
)
finding(
    "P66", ["C16"], "fixed", "gen_routes raises KeyError('doc') for a model whose column before the primary key is described nowhere (no doc=, no comment=, no :cvar)", "8930c05",
    witnesses={"C16": [{"app": "app", "models": [{"cls": "User", "cols": [{"default": None, "fk": False, "name": "sv", "nodoc": True, "nullable": True, "typ": "bool"}, {"default": None, "fk": False, "name": "uq", "nodoc": False, "nullable": True, "typ": "str"}], "crud": "RD", "doc_cols": False, "emitted": False, "multi": False, "pk": "none", "pk_name": None, "tbl": "user", "tbl_kind": "titlecase"}], "prefix": "/v1/things"}]},
)
finding(
    "P67", ["C14"], "fixed", "function/class parser given a LIVE object: a plain class annotation is stringified as \"<class 'int'>\" (not a type expression); builtin generics / unions lose leading characters ('uple[int, ...]', ' | None')", "eca0f79",
    witnesses={"C14": [{"feat": ["emitted"], "kind": "live", "names": ["a"], "obj": "function", "src": "def foo(*, a: int=None):\n    \"\"\"        :param a: alpha\"\"\"\n"}]},
)
finding(
    "P65", ["C07"], "fixed", "doctrans on a def/class with a comment between the header's colon and the docstring (`def f(a):  # noqa` or a comment line): the docstring is not recognised, the converted one is inserted in front of it with indentation taken from the comment (two docstrings / invalid Python)", "ab3043f",
    witnesses={"C07": [
        {"cli": False, "feat": ["comment-after-header", "doc:rest"], "runs": [["rest", True, None]], "src": "def f(a): # c\n    \"\"\"\n    Foo.\n\n    :param a: the a\n    :type a: ```int```\n    \"\"\"\n    return a\n"},
        {"cli": False, "feat": ["comment-before-docstring", "doc:rest"], "runs": [["google", True, None]], "src": "def f(a):\n    # c\n    \"\"\"\n    Foo.\n\n    :param a: the a\n    :type a: ```int```\n    \"\"\"\n    return a\n"},
        {"cli": False, "feat": ["comment-after-header", "doc:none"], "runs": [["rest", False, None]], "src": "def a():  # noqa: E501\n    a = 0  # c0\n    return 0\n"},
    ]},
)
finding(
    "P68", ["C07"], "open", "doctrans on a DECORATED def whose header line carries a trailing comment (`@deco` / `def x():  # c`): the CST scanner splits the following docstring into plain lines, so the converted docstring is added in front of the old one",
    witnesses={"C07": [{"cli": False, "feat": ["decorated", "comment-after-header", "hazard:P68-decorated-def-with-header-comment", "doc:google"], "runs": [["numpydoc", False, None], ["google", True, None]], "src": "def j(a: str = 109):\n    @deco2\n    def x() -> int:  # type: ignore\n        \"\"\"\n          int:\n        \"\"\"\n"}]},
)
finding(
    "P69", ["C07"], "fixed", "doctrans rewrites a def header by searching for '->' and ')': a '->' inside a default value / annotation (`sep: str='->'`, `-> Literal[':', '->']`) truncates the header (invalid Python) when annotations are removed", "9babaaf",
    witnesses={"C07": [
        {"cli": False, "feat": ["has-default", "doc:rest"], "runs": [["rest", False, None]], "src": "def f(a: int, sep: str='->'):\n    \"\"\"\n    Foo.\n\n    :param a: the a\n    :type a: ```int```\n\n    :param sep: the sep\n    :type sep: ```str```\n    \"\"\"\n    return 1\n"},
        {"cli": False, "feat": ["rich-return-annotation", "doc:none"], "runs": [["rest", False, None]], "src": "def lpt(v=-8, **kwargs) -> Literal[':', '->']:\n    return 1\n"},
    ]},
)
finding(
    "P70", ["C16"], "fixed", "upsert_routes into the routes file it created earlier appends the missing routes without a separator: `response.status = 204@app.post('/log')` - invalid Python, the added operations are lost", "df768ba",
    witnesses={"C16": [{"app": "app", "models": [{"cls": "Log", "cols": [{"default": None, "fk": False, "name": "id", "nodoc": False, "nullable": False, "typ": "int", "pk": True}, {"default": None, "fk": False, "name": "msg", "nodoc": False, "nullable": True, "typ": "str"}], "crud": "C", "crud0": "D", "doc_cols": True, "emitted": False, "multi": False, "pk": "explicit", "pk_name": "id", "tbl": "log", "tbl_kind": "titlecase"}], "prefix": ""}]},
)
finding(
    "P71", ["C16"], "fixed", "openapi_bulk groups routes per path with groupby WITHOUT sorting: for a routes file in the order delete('/x/:id'), post('/x'), get('/x/:id') the DELETE operation is missing from the document", "183509b",
    witnesses={"C16": [{"app": "app", "models": [{"cls": "Log", "cols": [{"default": None, "fk": False, "name": "id", "nodoc": False, "nullable": False, "typ": "int", "pk": True}, {"default": None, "fk": False, "name": "msg", "nodoc": False, "nullable": True, "typ": "str"}], "crud": "CRD", "crud0": "D", "doc_cols": True, "emitted": False, "multi": False, "pk": "explicit", "pk_name": "id", "tbl": "log", "tbl_kind": "titlecase"}], "prefix": ""}]},
)
finding(
    "P72", ["C19"], "fixed", "gen on a JSON-schema FILE: the mapping key is the basename with its extension, the symbol is emitted as `FoojsonConfig` while __all__ lists 'Foo.jsonConfig' (a name the module does not define)", "fb6a22c",
    witnesses={"C19": [{"emit": "class", "existing": False, "in": "json", "infer": False, "irs": [{"doc": "The foo.", "kinds": ["int", "optstr"], "name": "Foo", "params": [["alpha", {"default": 5, "doc": "the a", "typ": "int"}], ["beta", {"doc": "the b", "typ": "Optional[str]"}]], "returns": None}], "kinds_in": ["json"], "names": ["Foo"], "parse": "explicit", "prepend": None, "tpl": "{name}Config"}]},
)
finding(
    "P73", ["C19"], "fixed", "gen --parse infer on a JSON-schema file raises NotImplementedError (the file is loaded for 'infer', but infer() rejects the loaded dict)", "c8f70e4",
    witnesses={"C19": [{"emit": "function", "existing": False, "in": "json", "infer": False, "irs": [{"doc": "The foo.", "kinds": ["int", "optstr"], "name": "Foo", "params": [["alpha", {"default": 5, "doc": "the a", "typ": "int"}], ["beta", {"doc": "the b", "typ": "Optional[str]"}]], "returns": None}], "kinds_in": ["json"], "names": ["Foo"], "parse": "infer", "prepend": None, "tpl": "{name}"}]},
)
finding(
    "P74", ["C14"], "fixed", "json_schema parser on an ordinary hand-written schema: the keywords `nullable` (optional property), `format` and `items` stay behind as extra keys of the parameter entry", "77f426c",
    witnesses={"C14": [{"kind": "json-handshaped", "schema": {"$id": "https://x/foo.schema.json", "type": "object", "properties": {"p": {"default": 0, "nullable": True, "type": "array"}, "q": {"type": "string", "format": "date-time"}, "s": {"type": "array", "items": {"type": "integer"}}}}}]},
)
finding(
    "P75", ["C14"], "fixed", "sqlalchemy parsers on an ordinary hand-written model: Column options `index=`, `unique=` and a `comment=` next to a `doc=` stay behind as extra keys of the parameter entry", "33a9025",
    witnesses={"C14": [{"both": False, "form": "class", "kind": "sql-handshaped", "names": ["a"], "src": "class Foo(Base):\n    \"\"\"\n    The Foo model\n    \"\"\"\n    __tablename__ = \"foo\"\n\n    a = Column(String(32), index=True, unique=True, doc='the a', comment='the a again')\n"}]},
)
finding(
    "P76", ["C13"], "fixed", "sync_properties with a keyword-only INPUT parameter `f.a` (which cdd cannot address) silently took the parameter `a` of a later function named `a` instead of rejecting the path: the target lost / got the wrong annotation", "a22ccbc",
    witnesses={"C13": [{"isrc": "from typing import *\n\ndef f(k: int = -2, *, a: Optional[int] = 5):\n    return 0.5\n\ndef a(b, a):\n    return 0.5\n", "osrc": "from typing import *\n\ndef apxv(a):\n    return 1\n\n", "ip": ["f.a", "kwarg", ["a", "Optional[int]", "5"], {"idx": 0, "names": ["k", "a"], "hasdef": True, "first": None}], "op": ["apxv.a", "arg", ["a", None, None], {"idx": 0, "names": ["a"], "hasdef": False, "first": None}], "wrap": None, "eval": False, "cli": False, "dup": None}]},
)
finding(
    "P77", ["C01"], "open", "a parameter without description: its default is not written into the docstring in any style (the `Defaults to` sentence only rides on a description) and ReST without types writes no line for it at all - default / parameter lost on the way back",
    witnesses={"C01": [I([["a", {"typ": "int", "doc": "the a"}], ["b", {"typ": "int", "doc": "", "default": 5}]], cells=[["google", True, False, True, False], ["rest", True, False, False, False]])]},
)
finding(
    "P78", ["C15"], "open", "header prose that MENTIONS `Returns` / `Parameters` inside a line, in a docstring whose section is the return entry alone (no parameters): the mentioned word is taken for the section start - header and footer overlap (the three parts no longer tile the text) or the boundaries land inside the header (the source notes `FPs possible for \"Parameters\" and \"Returns\" randomly thrown into normal doc_str`)",
    witnesses={"C15": [{'style': 'rest', 'text': 'hw0 Returns\nhw1\n:return: rd\n:rtype: ```int```', 'indent': 0, 'header_lines': ['hw0 Returns', 'hw1'], 'params': [], 'rtyp': 'int', 'footer': False, 'footer_lines': [], 'section': ':return: rd\n:rtype: ```int```', 'lead_nl': False, 'mention': 'Returns'}]},
)
finding(
    "P79", ["C12"], "fixed", "sync emitted every target from ONE shared interface object: the class emitter moves the return entry into the parameters, so a function file created afterwards from a class truth with a return entry got a spurious parameter `return_type` (found when the P9 relaxation was narrowed to targets that exist, round 9)", "f661e23",
    witnesses={"C12": [{'long_doc': True, 'profile': 'common', 'related': None, 'undocumented': False, 'irs': [{'name': 'Foo', 'doc': 'With limit input.', 'params': [['v16sxw2', {'typ': 'Optional[str]', 'doc': 'well-known kind with a alpha gamma pre-trained name that this on.'}], ['xu0r17b6a', {'typ': 'str', 'doc': 'with pre-trained axis look-up for x-axis step pre-trained w.', 'default': 'O8H0Tz'}], ['m', {'typ': 'bool', 'doc': 'step on-the-fly pre-trained kind non-zero name buffer kind limit when factor pre-tra.', 'default': True}]], 'kinds': ['optstr', 'str', 'bool'], 'returns': {'typ': 'int', 'doc': 'step.'}}, {'name': 'Foo', 'doc': 'With limit input.', 'params': [['v16sxw2', {'typ': 'Optional[str]', 'doc': 'well-known kind with a alpha gamma pre-trained name that this on.'}], ['xu0r17b6a', {'typ': 'str', 'doc': 'with pre-trained axis look-up for x-axis step pre-trained w.', 'default': 'O8H0Tz'}], ['m', {'typ': 'bool', 'doc': 'step on-the-fly pre-trained kind non-zero name buffer kind limit when factor pre-tra.', 'default': True}]], 'kinds': ['optstr', 'str', 'bool'], 'returns': {'typ': 'int', 'doc': 'step.'}}, {'name': 'Foo', 'doc': 'With limit input.', 'params': [['v16sxw2', {'typ': 'Optional[str]', 'doc': 'well-known kind with a alpha gamma pre-trained name that this on.'}], ['xu0r17b6a', {'typ': 'str', 'doc': 'with pre-trained axis look-up for x-axis step pre-trained w.', 'default': 'O8H0Tz'}], ['m', {'typ': 'bool', 'doc': 'step on-the-fly pre-trained kind non-zero name buffer kind limit when factor pre-tra.', 'default': True}]], 'kinds': ['optstr', 'str', 'bool'], 'returns': {'typ': 'int', 'doc': 'step.'}}], 'same': True, 'truth': 'class', 'states': {'class': 'present', 'function': 'missing', 'argparse_function': 'missing'}, 'method': False, 'runs': 1, 'nww': False}]},
)
finding(
    "P80", ["C10"], "open", "a parameter whose default is a SET display (`opt={'SGD', 'sgd', 'Adam'}`): the function parser evaluates it to a Python set and the class / argparse / function emitters print it in the set's own iteration order, which changes with PYTHONHASHSEED (the JSON-schema file, which sorts the members, is stable and stays strict)",
    witnesses={"C10": [{'inputs': {'setdef0': {'src': 'def f(opt={"SGD", "sgd", "Adam", "adam", "RMSprop"}, n={3, 1, 2}, k=5):\n    """\n    Does the thing.\n\n    :param opt: the opt\n    :param n: the n\n    :param k: the k\n    """\n    return 1\n', 'style': 'rest'}}, 'scripts': [{'name': 'a', 'calls': [['function_to_class', 'setdef0']]}, {'name': 'b', 'calls': [['function_to_class', 'setdef0']]}], 'seeds': [0, 1], 'api': 'function_to_class', 'key': 'setdef0'}]},
)
finding(
    "P81", ["C02"], "open", "a float / complex parameter whose default is an INTEGER literal (`clip: float = -1`): argparse re-types it to int, function formats with the `Defaults to` sentence re-type it to int (ReST) or coerce the default to -1.0 (Google) - the literal's own type competes with the declared one (found when the round-9 C02 seed made the generator draw that shape; the function format without the sentence is clean and stays strict)",
    witnesses={"C02": [I([["a", {"typ": "float", "doc": "the a", "default": -1}]], cells=[[8, "rest", True]], int_for_float="a")]},
)
finding("P26", ["C07"], "open", "doctrans drops comments inside a rewritten multi-line def header")
finding("P27", ["C07"], "open", "doctrans turns a one-line `def f(a=1): return a` into invalid Python")
finding("P28", ["C07"], "open", "doctrans does not recognise a raw docstring r\"\"\"...\"\"\": a second string is inserted")
finding("P29", ["C14", "C08"], "open", "sqlalchemy parsers: a column of unmapped type yields a param entry with the key None; synthesised id column carries a stray server_default key")
finding("P30", ["C14"], "open", "docstring parser on ill-formed text returns empty parameter names and unparseable types")
finding("P31", ["C20", "C19"], "open", "exmod --emit pydantic|json_schema|sqlalchemy raises TypeError after creating part of the tree")
finding("P32", ["C16"], "open", "openapi_bulk on a model with a ForeignKey column raises AttributeError in infer")
finding("P33", ["C16"], "open", "openapi_bulk on a model without explicit primary key: synthesised id column puts an ast.Call into the schema (not JSON-serialisable)")
finding("P35", ["C14"], "open", "function.parse drops *args, undocumented **kwargs and positional-only parameters")
finding("P37", ["C19"], "open", "gen --parse sqlalchemy_table raises AttributeError; SQLAlchemy class inputs are named after __tablename__")


W = []

# ---- C02 witnesses (cell = [format index in checks/C02.FORMATS, style, emit_default_doc])
A = ["a", {"typ": "int", "doc": "the a"}]
W.append(("P13", "C02", I([A], cells=[[8, "rest", True]])))
W.append(("P25", "C02", I([A], cells=[[0, "numpydoc", True]])))
W.append(("P41", "C02", I([A5], RET, cells=[[0, "google", True]])))
W.append(("P42", "C02", I([A], doc="", cells=[[0, "google", True]])))
W.append(("P10", "C02", I([["a", {"typ": "Optional[int]", "doc": "the a", "default": "```(None)```"}]], cells=[[0, "rest", True], [2, "rest", True], [3, "google", True]])))

# ---- C03 witnesses (seqs = hop histories)
W.append(("P13", "C03", I([A], seqs=[["argparse"]])))
W.append(("P14", "C03", I([A], seqs=[["function", "class"]])))
W.append(("P6", "C03", I([["a", {"typ": "int", "doc": "the a", "default": -5}]], seqs=[["doc_rest"], ["class", "doc_rest", "function"]])))
W.append(("P10", "C03", I([["a", {"typ": "Optional[int]", "doc": "the a", "default": "```(None)```"}]], seqs=[["doc_rest", "class"], ["function", "doc_rest"]])))

# ---- C04 witnesses (cell = [emitter index in checks/C04.EMITTERS, style])
W.append(("P13", "C04", I([["m", {"typ": "Literal['x']", "doc": "the m", "default": "x"}]], cells=[[5, "rest"]])))
W.append(("P13", "C04", I([["b", {"typ": "bool", "doc": "the b"}]], cells=[[5, "rest"]])))

# ---- C06 witnesses
W.append(("P5", "C06", I([["a", {"typ": "int", "doc": "the a"}]], doc="")))
W.append(("P15", "C06", I([["d", {"typ": "Literal['x', 'yy']", "doc": "the d", "default": "x"}]])))

# ---- C18 witnesses
W.append(("P3", "C18", {"kind": "single", "modules": ["cdd.sqlalchemy.parse"]}))
W.append(("P3", "C18", {"kind": "single", "modules": ["cdd.compound.gen"]}))
W.append(("P4", "C18", {"kind": "single", "modules": ["cdd.sqlalchemy.utils.emit_utils"]}))
W.append(("P4", "C18", {"kind": "pair", "modules": ["cdd.compound.openapi.gen_openapi", "cdd.sqlalchemy.utils.shared_utils"]}))

# ---- C10 witnesses (two (script, seed) pairs whose digests for (api,key) must agree)
_FN = "def f(alpha, beta, gamma, delta, epsilon, zeta, eta, theta):\n    \"\"\"\n    Does.\n\n    :param gamma: g\n    :param alpha: a\n    \"\"\"\n    return 1\n"
_ONE = {"name": "one", "calls": [["function_parse", "w"]]}
W.append(("P2", "C10", {"inputs": {"w": {"src": _FN}}, "scripts": [_ONE, _ONE], "seeds": [0, 1], "api": "function_parse", "key": "w"}))
W.append(("P2", "C10", {"inputs": {"w": {"src": _FN}}, "scripts": [_ONE, _ONE], "seeds": [2, 3], "api": "function_parse", "key": "w"}))
_CLS = "class Foo(object):\n    \"\"\"\n    Hdr.\n\n    :cvar a: the a\n    \"\"\"\n    a: int = 5\n"
_G = {"src": _CLS, "emit": "class", "parse": "class", "infer": False}
_L = dict(_G, prepend="import json as path\n")
W.append(("P45", "C10", {"inputs": {"g": _G, "leak": _L}, "scripts": [{"name": "plain", "calls": [["gen", "g"]]}, {"name": "leak-first", "calls": [["gen", "leak"], ["gen", "g"]]}], "seeds": [0, 0], "api": "gen", "key": "g"}))

# ---- C11 witnesses
W.append(("P1", "C11", {"fn": "emit_doc", "arg": "  \nfoo"}))
W.append(("P1", "C11", {"fn": "emit_orig", "arg": "\n   \nfoo\n"}))
W.append(("P1", "C11", {"fn": "emit_ir", "arg": {"ir": I([["a", {"typ": "int", "doc": "x"}]], doc=" \nbar"), "style": "google", "indent": 2, "kind": "function"}}))

# ---- C08 witnesses (formats = the formats the fixpoint is checked in)
def I8(params, returns=None, doc="Some summary.", **kw):
    return I(params, returns, doc, feats=[], **kw)


W.append(("P21", "C08", I8([A5], RET, formats=["doc_google"])))
W.append(("P29", "C08", I8([["a", {"typ": "List[str]", "doc": "the a"}]], formats=["sqlalchemy_table"])))
W.append(("P46", "C08", I8([A], formats=["sqlalchemy"])))
W.append(("P47", "C08", I8([["a", {"typ": "int", "doc": "alpha. path the", "default": 0}]], formats=["doc_google"])))
W.append(("P47", "C08", I8([["a", {"typ": "int", "doc": "mode this defaults to 5 limit", "default": 0}]], formats=["doc_rest"])))

# ---- C15 witnesses (gen_doc.docstr dicts)
W.append(('P48', "C15", {'style': 'rest', 'text': ':param a: pda', 'indent': 0, 'header_lines': [], 'params': [{'name': 'a', 'typ': None, 'default': None, 'doc': 'pda'}], 'rtyp': None, 'footer': False, 'footer_lines': [], 'section': ':param a: pda', 'lead_nl': False}))
W.append(('P50', "C15", {'style': 'rest', 'text': 'hw0\n\n:param a: pda\n:return: rd\n:rtype: ```int```\n', 'indent': 0, 'header_lines': ['hw0'], 'params': [{'name': 'a', 'typ': None, 'default': None, 'doc': 'pda'}], 'rtyp': 'int', 'footer': False, 'footer_lines': [], 'section': ':param a: pda\n:return: rd\n:rtype: ```int```', 'lead_nl': False}))
W.append(('P51', "C15", {'style': 'numpydoc', 'text': 'hw0 hw4\n\nParameters\n----------\nw : str\n    pdw\na : str\n    pda\n', 'indent': 0, 'header_lines': ['hw0 hw4'], 'params': [{'name': 'w', 'typ': 'str', 'default': None, 'doc': 'pdw'}, {'name': 'a', 'typ': 'str', 'default': None, 'doc': 'pda'}], 'rtyp': None, 'footer': False, 'footer_lines': [], 'section': 'Parameters\n----------\nw : str\n    pdw\na : str\n    pda', 'lead_nl': False}))
W.append(('P49', "C15", {'style': 'numpydoc', 'text': 'hw1\n\nParameters\n----------\na : int\n    pda\n\nSee Also\n--------\nfw21 fw11\n', 'indent': 0, 'header_lines': ['hw1'], 'params': [{'name': 'a', 'typ': 'int', 'default': None, 'doc': 'pda'}], 'rtyp': None, 'footer': True, 'footer_lines': ['See Also', '--------', 'fw21 fw11'], 'section': 'Parameters\n----------\na : int\n    pda', 'lead_nl': False}))
W.append(('P20', "C15", {'style': 'rest', 'text': 'hw1\n\n:param a: pda\n:type a: ```int```\n\nNotes:\n  \nfw0 fw0\n', 'indent': 0, 'header_lines': ['hw1'], 'params': [{'name': 'a', 'typ': 'int', 'default': None, 'doc': 'pda'}], 'rtyp': None, 'footer': True, 'footer_lines': ['Notes:', '  ', 'fw0 fw0'], 'section': ':param a: pda\n:type a: ```int```', 'lead_nl': False}))
W.append(('P25', "C15", {'style': 'numpydoc', 'text': '\n    hw1\n\n    Parameters\n    ----------\n    a : int\n        pda\n', 'indent': 4, 'header_lines': ['hw1'], 'params': [{'name': 'a', 'typ': 'int', 'default': None, 'doc': 'pda'}], 'rtyp': None, 'footer': False, 'footer_lines': [], 'section': 'Parameters\n----------\na : int\n    pda', 'lead_nl': True}))

# ---- C14 witnesses
W.append(("P30", "C14", {"kind": "text", "text": ":param "}))
W.append(("P30", "C14", {"kind": "text", "text": ":type int"}))
W.append(("P35", "C14", {"kind": "function", "src": "def b(b=None, *args):\n    return b\n", "feat": []}))
W.append(("P29", "C14", {"kind": "emitted", "fmt": "sqlalchemy", "ir": I([["a", {"typ": "int", "doc": "the a"}]]), "style": "rest"}))

# ---- C07 witnesses
_PRE = "import functools\n\n"
W.append(("P7", "C07", {"src": "class A(object):\n\n    def n(self, r, s=3, *args, k=1, **kw):\n        \"\"\"\n        Does.\n\n        :param r: the r\n        :type r: ```int```\n\n        :param s: the s\n        :type s: ```int```\n        \"\"\"\n        return r\n", "feat": ["has-default", "star-args", "kw-only"], "runs": [["rest", True, None], ["google", False, None]], "cli": False}))
W.append(("P26", "C07", {"src": "def f(\n    a=1,  # about a\n    b=2,\n):\n    \"\"\"\n    Does.\n\n    :param a: the a\n    :type a: ```int```\n    \"\"\"\n    return a\n", "feat": ["hazard:P26-comment-in-header"], "runs": [["rest", True, None]], "cli": False}))
W.append(("P27", "C07", {"src": "def a(): return 0\n", "feat": ["hazard:P27-one-line-def"], "runs": [["rest", False, None]], "cli": False}))
W.append(("P28", "C07", {"src": "def f(a=1):\n    r\"\"\"\n    Does.\n\n    :param a: the a\n    :type a: ```int```\n    \"\"\"\n    return a\n", "feat": ["hazard:P28-raw-docstring"], "runs": [["google", True, None]], "cli": False}))

# ---- C12 witnesses
W.append(('P9', "C12", {'irs': [{'name': 'Foo', 'doc': 'Some summary.', 'params': [['a', {'typ': 'int', 'doc': 'the a', 'default': 5}]], 'kinds': ['?'], 'returns': None}, {'name': 'Foo', 'doc': 'Some summary.', 'params': [['b', {'typ': 'str', 'doc': 'the b', 'default': 'x'}]], 'kinds': ['?'], 'returns': None}, {'name': 'Foo', 'doc': 'Some summary.', 'params': [['a', {'typ': 'int', 'doc': 'the a', 'default': 5}]], 'kinds': ['?'], 'returns': None}], 'same': False, 'truth': 'class', 'states': {'class': 'present', 'function': 'present', 'argparse_function': 'present'}, 'method': False, 'runs': 1, 'nww': False}))
W.append(('P9', "C12", {'irs': [{'name': 'Foo', 'doc': 'Some summary.', 'params': [['a', {'typ': 'int', 'doc': 'the a', 'default': 5}]], 'kinds': ['?'], 'returns': None}, {'name': 'Foo', 'doc': 'Some summary.', 'params': [['a', {'typ': 'int', 'doc': 'the a', 'default': 5}]], 'kinds': ['?'], 'returns': None}, {'name': 'Foo', 'doc': 'Some summary.', 'params': [['b', {'typ': 'str', 'doc': 'the b', 'default': 'x'}]], 'kinds': ['?'], 'returns': None}], 'same': False, 'truth': 'class', 'states': {'class': 'present', 'function': 'present', 'argparse_function': 'present'}, 'method': False, 'runs': 1, 'nww': False}))
W.append(('P9', "C12", {'irs': [{'name': 'Foo', 'doc': 'Some summary.', 'params': [['a', {'typ': 'int', 'doc': 'the a', 'default': 5}]], 'kinds': ['?'], 'returns': None}, {'name': 'Foo', 'doc': 'Some summary.', 'params': [['b', {'typ': 'str', 'doc': 'the b', 'default': 'x'}]], 'kinds': ['?'], 'returns': None}, {'name': 'Foo', 'doc': 'Some summary.', 'params': [['a', {'typ': 'int', 'doc': 'the a', 'default': 5}]], 'kinds': ['?'], 'returns': None}], 'same': False, 'truth': 'class', 'states': {'class': 'present', 'function': 'present', 'argparse_function': 'present'}, 'method': True, 'runs': 2, 'nww': False}))
W.append(('P54', "C12", {'irs': [{'name': 'Foo', 'doc': 'Some summary.', 'params': [['a', {'typ': 'int', 'doc': 'the a', 'default': 5}]], 'kinds': ['?'], 'returns': None}, {'name': 'Foo', 'doc': 'Some summary.', 'params': [['a', {'typ': 'int', 'doc': 'the a', 'default': 5}]], 'kinds': ['?'], 'returns': None}, {'name': 'Foo', 'doc': 'Some summary.', 'params': [['a', {'typ': 'int', 'doc': 'the a', 'default': 5}]], 'kinds': ['?'], 'returns': None}], 'same': True, 'truth': 'argparse_function', 'states': {'class': 'missing', 'function': 'missing', 'argparse_function': 'present'}, 'method': False, 'runs': 2, 'nww': False}))

# ---- C19 witnesses
W.append(('P17a', "C19", {'in': 'class', 'names': ['Alpha', 'Beta'], 'irs': [{'name': 'Foo', 'doc': 'Some summary.', 'params': [['a', {'typ': 'int', 'doc': 'the a', 'default': 5}], ['b', {'typ': 'Optional[str]', 'doc': 'the b'}]], 'kinds': ['?', '?'], 'returns': None}, {'name': 'Foo', 'doc': 'Some summary.', 'params': [['c', {'typ': "Literal['x', 'y']", 'doc': 'the c', 'default': 'x'}]], 'kinds': ['?'], 'returns': None}], 'parse': 'explicit', 'emit': 'function', 'tpl': '{name}Config', 'infer': False, 'prepend': None, 'existing': False}))
W.append(('P17b', "C19", {'in': 'class', 'names': ['Alpha', 'Beta'], 'irs': [{'name': 'Foo', 'doc': 'Some summary.', 'params': [['a', {'typ': 'int', 'doc': 'the a', 'default': 5}], ['b', {'typ': 'Optional[str]', 'doc': 'the b'}]], 'kinds': ['?', '?'], 'returns': None}, {'name': 'Foo', 'doc': 'Some summary.', 'params': [['c', {'typ': "Literal['x', 'y']", 'doc': 'the c', 'default': 'x'}]], 'kinds': ['?'], 'returns': None}], 'parse': 'explicit', 'emit': 'pydantic', 'tpl': '{name}Config', 'infer': False, 'prepend': None, 'existing': False}))
W.append(('P17c', "C19", {'in': 'class', 'names': ['Alpha', 'Beta'], 'irs': [{'name': 'Foo', 'doc': 'Some summary.', 'params': [['a', {'typ': 'int', 'doc': 'the a', 'default': 5}], ['b', {'typ': 'Optional[str]', 'doc': 'the b'}]], 'kinds': ['?', '?'], 'returns': None}, {'name': 'Foo', 'doc': 'Some summary.', 'params': [['c', {'typ': "Literal['x', 'y']", 'doc': 'the c', 'default': 'x'}]], 'kinds': ['?'], 'returns': None}], 'parse': 'explicit', 'emit': 'class', 'tpl': '{name}Config', 'infer': True, 'prepend': None, 'existing': False}))
W.append(('P36', "C19", {'in': 'argparse', 'names': ['Alpha', 'Beta'], 'irs': [{'name': 'Foo', 'doc': 'Some summary.', 'params': [['a', {'typ': 'int', 'doc': 'the a', 'default': 5}], ['b', {'typ': 'Optional[str]', 'doc': 'the b'}]], 'kinds': ['?', '?'], 'returns': None}, {'name': 'Foo', 'doc': 'Some summary.', 'params': [['c', {'typ': "Literal['x', 'y']", 'doc': 'the c', 'default': 'x'}]], 'kinds': ['?'], 'returns': None}], 'parse': 'explicit', 'emit': 'class', 'tpl': '{name}Config', 'infer': False, 'prepend': None, 'existing': False}))
W.append(('P55', "C19", {'in': 'class', 'names': ['Alpha', 'Beta'], 'irs': [{'name': 'Foo', 'doc': 'Some summary.', 'params': [['a', {'typ': 'int', 'doc': 'the a', 'default': 5}], ['b', {'typ': 'Optional[str]', 'doc': 'the b'}]], 'kinds': ['?', '?'], 'returns': None}, {'name': 'Foo', 'doc': 'Some summary.', 'params': [['c', {'typ': "Literal['x', 'y']", 'doc': 'the c', 'default': 'x'}]], 'kinds': ['?'], 'returns': None}], 'parse': 'explicit', 'emit': 'sqlalchemy', 'tpl': '{name}', 'infer': True, 'prepend': 'import os\n', 'existing': False}))
W.append(('P38', "C19", {'in': 'argparse', 'names': ['Alpha', 'Beta'], 'irs': [{'name': 'Foo', 'doc': 'Some summary.', 'params': [['a', {'typ': 'int', 'doc': 'the a', 'default': 5}], ['b', {'typ': 'Optional[str]', 'doc': 'the b'}]], 'kinds': ['?', '?'], 'returns': None}, {'name': 'Foo', 'doc': 'Some summary.', 'params': [['c', {'typ': "Literal['x', 'y']", 'doc': 'the c', 'default': 'x'}]], 'kinds': ['?'], 'returns': None}], 'parse': 'explicit', 'emit': 'json_schema', 'tpl': '{name}Config', 'infer': False, 'prepend': None, 'existing': False}))
W.append(('P17d', "C19", {'in': 'class', 'names': ['Alpha', 'Beta'], 'irs': [{'name': 'Foo', 'doc': 'Some summary.', 'params': [['a', {'typ': 'int', 'doc': 'the a', 'default': 5}], ['b', {'typ': 'Optional[str]', 'doc': 'the b'}]], 'kinds': ['?', '?'], 'returns': None}, {'name': 'Foo', 'doc': 'Some summary.', 'params': [['c', {'typ': "Literal['x', 'y']", 'doc': 'the c', 'default': 'x'}]], 'kinds': ['?'], 'returns': None}], 'parse': 'explicit', 'emit': 'sqlalchemy', 'tpl': '{name}Config', 'infer': False, 'prepend': None, 'existing': False}))

# ---- C20 witnesses
_T = {"modules": {"mod_00": ["Alpha"], "sub0/mod_10": ["Beta"]}, "irs": {"Alpha": I([A5]), "Beta": I([A5])}, "levels": 2}
W.append(("P56", "C20", {"tree": _T, "emit": "class", "recursive": True, "sqlsub": False, "list": "blacklist", "chosen": ["sub0"], "cells": [[False, "absent"]]}))
W.append(("P18", "C20", {"tree": _T, "emit": "sqlalchemy_table", "recursive": True, "sqlsub": True, "list": "none", "chosen": [], "cells": [[True, "empty"], [True, "populated"], [True, "absent"]]}))

# ---- C16 witnesses
def M(cls, tbl, cols, pk="explicit", pk_name=None, crud="CRD", doc_cols=False, multi=False, emitted=False):
    return {"emitted": emitted, "doc_cols": doc_cols, "cls": cls, "tbl": tbl, "tbl_kind": "?", "cols": cols, "pk": pk, "pk_name": pk_name, "crud": crud, "multi": multi}


def Col(name, typ="int", **kw):
    d = {"name": name, "typ": typ, "nullable": False, "default": None, "fk": False}
    d.update(kw)
    return d


W.append(("P16", "C16", {"models": [M("FooBar", "foo_bar", [Col("key", "str", pk=True), Col("n")], pk_name="key", multi=True)], "app": "rest_api", "prefix": "/api"}))
W.append(("P32", "C16", {"models": [M("Config", "config_tbl", [Col("key", "str", pk=True), Col("other", fk=True)], pk_name="key", emitted=True)], "app": "rest_api", "prefix": "/api"}))
W.append(("P33", "C16", {"models": [M("Config", "config_tbl", [Col("n"), Col("m", "str")], pk="none", emitted=True)], "app": "rest_api", "prefix": "/api"}))
W.append(("P57", "C16", {"models": [M("Config", "config_tbl", [Col("n"), Col("key", "str", pk=True)], pk_name="key", doc_cols=True)], "app": "rest_api", "prefix": "/api"}))


def main():
    for fid, prop, case in W:
        e = next(x for x in F if x["id"] == fid)
        assert prop in e["properties"], (fid, prop)
        e["witnesses"].setdefault(prop, []).append(case)
    ids = [e["id"] for e in F]
    assert len(ids) == len(set(ids))
    with open(os.path.join(ROOT, "known_findings.json"), "w") as f:
        json.dump({"comment": "read-only at run time; generated by tools/mkfindings.py; see DESIGN.md sections 3 (R3) and 5", "findings": F}, f, indent=1)
    print("known_findings.json: %d open, %d fixed" % (sum(e["status"] == "open" for e in F), sum(e["status"] == "fixed" for e in F)))


if __name__ == "__main__":
    main()
