#!/venv/bin/python
"""Completes seeded/<name>/meta.json (written by seed_eval.sh) with the fields the task asks for: which property the
change breaks, what it needs in order to manifest (taken from the sub-agent's notes.md), what was run.  Idempotent."""
import json, os, re, sys

ROOT = os.path.dirname(os.path.dirname(os.path.abspath(__file__)))
for name in sorted(os.listdir(os.path.join(ROOT, "seeded"))):
    d = os.path.join(ROOT, "seeded", name)
    mp = os.path.join(d, "meta.json")
    if not os.path.isfile(mp):
        continue
    m = json.load(open(mp))
    m["property"] = name[:3]
    notes = open(os.path.join(d, "notes.md")).read() if os.path.exists(os.path.join(d, "notes.md")) else ""
    flat = " ".join(notes.split())
    hit = re.search(r"(?i)(trigger|what is needed|needs|manifest)[^.]{0,40}[:.]\s*(.{40,700})", flat)
    m["needs_to_manifest"] = (hit.group(2) if hit else flat)[:700]
    m["what_was_run"] = [
        "demo.py against a clean copy of /repo (exit %s) and against the copy with patch.diff applied (exit %s)" % (m.get("demo_rc_clean"), m.get("demo_rc_patched")),
        "the repository's pinned test-suite on the patched copy: %s" % m.get("suite_on_patched"),
        "the registered checks against the patched copy (VERIF_REPO=<copy> ./check <id> <tier>): %s" % (m.get("checks_run") or "").strip(),
    ]
    if os.path.exists(os.path.join(d, "PIN")):
        m["pinned_to_repo_commit"] = open(os.path.join(d, "PIN")).read().strip()
    json.dump(m, open(mp, "w"), indent=1)
print("ok")
