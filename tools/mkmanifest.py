#!/venv/bin/python
"""Regenerates MANIFEST.json from the table below (keeps the manifest valid at all times)."""
import json
import os

ROOT = os.path.dirname(os.path.dirname(os.path.abspath(__file__)))

ENGINES = [
    {"name": "E1 irprop", "path": "vlib/gen_ir.py, vlib/hops.py", "serves_properties": ["C01", "C02", "C03", "C04", "C05", "C06", "C08", "C14"], "kind_free_text": "Hypothesis @given / RuleBasedStateMachine over interface descriptions, one hop or a history of hops, oracle on the resulting IR"},
    {"name": "E2 progprop", "path": "vlib/gen_prog.py, vlib/gen_models.py", "serves_properties": ["C07", "C12", "C13", "C16", "C19", "C20"], "kind_free_text": "Hypothesis over generated files on disk; command run in-process through the function `python -m cdd` dispatches to; before/after comparison by ast, tokenize, bytes"},
    {"name": "E3 textfuzz", "path": "checks/C09.py, checks/C11.py, checks/C15.py", "serves_properties": ["C09", "C11", "C14", "C15"], "kind_free_text": "exhaustive enumeration of token sequences to a length, then Hypothesis text over the same alphabet, then repository files and mutations of them, then (C09, C14) atheris campaigns in a fresh interpreter with the oracle inside the fuzz target"},
    {"name": "E4 procs", "path": "checks/C10.py, checks/C18.py", "serves_properties": ["C10", "C18"], "kind_free_text": "pool of fresh interpreters with controlled PYTHONHASHSEED / import order / call script; parent compares digests"},
    {"name": "E5 monitor", "path": "vlib/monitor.py", "serves_properties": ["C17", "C20"], "kind_free_text": "sys.addaudithook event recorder + sentinels + file-system snapshot wrapped around generated cases"},
]

# id -> (claimed, technique, level text, level note, design ref)
CHECKS = {}


def check(pid, technique, text, note, ref=None, thorough=True):
    CHECKS[pid] = dict(technique=technique, text=text, note=note, ref=ref or "DESIGN.md section 4/" + pid, thorough=thorough)


check(
    "C09",
    "exhaustive token-sequence enumeration + Hypothesis text + file mutation fuzzing + coverage-guided fuzzing (atheris/libFuzzer, oracle inside the target, seeded and empty corpus) against the reconstruction/tiling identity",
    "Generated-input search: every string of <=5 (quick) / <=6 (thorough) tokens of a 19-token lexical alphabet and every string of <=4 / <=5 tokens of a second 17-token alphabet of bracketed expression statements is enumerated, then Hypothesis strings over alphabet and corpus lines, arbitrary unicode, and repository files whole/truncated/line-mutated, then two atheris campaigns (4 000 runs each in quick, 16 x 400 000 in thorough; bytes decoded as UTF-8 text, as token indices, or mixed); for each the concatenation identity and the line tiling are checked exactly. Within the enumerated bound absence of a counterexample is established; beyond it this is sampling.",
    "Trusts CPython str operations and that the scanner is a pure function of its argument; inputs longer than the generated sizes and alphabets outside the stated one are only sampled.",
)

check(
    "C01",
    "Hypothesis-generated interfaces x exhaustive 48-cell configuration matrix; inverse-pair oracle parse(emit(x)) == x under the documented normalisations",
    "Generated-input search over the docstring-representable domain: each generated interface is emitted and re-parsed in every style/flag cell and compared clause by clause (names, order, type strings, defaults incl. Python type, descriptions, return entry, header, style detection). Sampling, not proof; open findings relax one clause of one narrow input class each.",
    "Trusts the generator's vocabulary to be trigger-free as the property's quantifier demands; known_findings.json classes P21-P24, P40 are relaxed narrowly (see DESIGN 5).",
)
check(
    "C02",
    "Hypothesis-generated interfaces x exhaustive format/style/flag matrix; emit -> to_code -> re-read -> parse inverse-pair oracle plus compile()",
    "Generated-input search over signature-legal interfaces pushed through class, pydantic, six function modes and argparse in three docstring styles; IR equality after re-parsing the re-read text under exactly the two normalisations the property names.",
    "Code-quoted defaults are excluded by construction (finding P43); doc-derived clauses are relaxed where the embedded docstring is not recognised (P25, P41, P42) and argparse zero-value classes (P13).",
)

check(
    "C03",
    "exhaustive hop-sequence enumeration (all 155 sequences of length<=3 per generated interface) + Hypothesis RuleBasedStateMachine over hop histories (docstring hop in three configurations: strip / keep the Defaults-to sentence / library defaults); invariant-after-every-step and commutation oracle",
    "Generated-input search over interfaces of the common domain and over conversion histories: the invariant 'names, order, types, defaults equal the start interface' is evaluated after every hop of every sequence of length<=3 (complete per interface) and of machine-drawn histories up to 5 hops, which shrink as one value; commutation is compared per multiset of hops.",
    "Relaxations are decided on (start parameter, history) only: the documented '=None' of the function hop, P13 (argparse zero values / single-member Literal) and P14 (Optional widening after a function hop); names and order are never relaxed.",
)

check(
    "C04",
    "Hypothesis-generated interfaces x emitter/style matrix (incl. class with the function body as __call__, which is executed); differential oracle against CPython (compile/exec, inspect.signature, argparse) plus unparse/re-parse identity",
    "Generated-input search over the executable domain: every emitted class / function / argparse function is compiled, executed in a scratch namespace and interrogated with __annotations__, inspect.signature and a real ArgumentParser (option per parameter, type conversion, choices, default, required, help, parse_args with only required options).",
    "exec of emitted code is confined to our own literal vocabulary; BaseModel is stubbed with object; P13's argparse classes (bare bool, single-member Literal) are relaxed narrowly.",
)
check(
    "C05",
    "Hypothesis-generated table descriptions x variant/style/force_pk_id matrix; inverse-pair oracle per variant plus cross-variant agreement, Table -> class conversion agreement and primary-key count on the re-read AST",
    "Generated-input search over SQL-representable interfaces; each of the three emissions is rendered, re-read and parsed, compared column by column (names, order, types incl. Enum members as a set, nullability, defaults, descriptions with PK/FK markers) and with each other; exactly one primary_key=True per emission.",
    "force_pk_id=True with a user column literally named `id` is treated as a generator-made collision and skipped (counted).",
)
check(
    "C06",
    "Hypothesis-generated interfaces; jsonschema Draft 2020-12 meta-schema validator as reference + required/Optional, default-validates, pattern membership (positive and three negative generators) and inverse-pair oracle",
    "Generated-input search over JSON-representable interfaces (0..8 params, with/without prose and return entry); the emitted schema is serialised, validated against the meta-schema, checked for internal consistency and parsed back.",
    "Only the *superstring* negative generator is relaxed (P15: unanchored alternation); disjoint strings and proper prefixes stay strict.",
)

check(
    "C10",
    "metamorphic search over the environment: Hypothesis-generated inputs x call scripts (orders, repetitions, interleavings, leaking calls first) x PYTHONHASHSEED values, each in a fresh interpreter; digest-equality oracle (inputs include LIVE imported function/class objects)",
    "Generated-input search where the varied dimension is the interpreter: for each (api, input) the bytes produced must be identical across all sampled hash seeds, all positions in all call scripts and repetitions. Covers function/class/argparse/json-schema/sqlalchemy/docstring parsers and emitters (incl. Table and hybrid variants), gen with import inference, infer_imports/optimise_imports, doctrans, sync, openapi emit, get_module_contents.",
    "Hash seeds and scripts are sampled; key order inside one parameter's dict is not treated as output (parameter order is).",
)
check(
    "C18",
    "exhaustive enumeration of import histories in fresh interpreters (all modules alone; all ordered pairs in thorough, all cycle-touching pairs + seeded sample in quick); exit-status and bound-names oracle",
    "Finite domain enumerated: every non-test module is imported first in a fresh interpreter (always complete); ordered pairs are complete in the thorough tier. For each unordered pair the public names bound in both modules are compared between the two orders.",
    "Trusts that 'public module' = under cdd/ and not under cdd/tests/; import triples and longer histories are not explored.",
)

check(
    "C11",
    "exhaustive token-sequence enumeration + Hypothesis-generated prose/interfaces/modules; bounded-progress oracle (interval-timer filter, then deterministic sys.settrace step budget)",
    "Termination recast as a safety property a search can decide: every sequence of <=4 (quick) / <=5 (thorough) tokens of a 21-token docstring alphabet through six entry points, every sequence of <=3 / <=4 tokens of a 33-token prose-to-type alphabet (union/literal/'list of' sentences with tabs, NBSP, line breaks) through the doc-to-type entry points, generated interfaces with hostile prose through docstring.emit and the emitters that embed it, cst_parse on token soups, and generated modules through doctrans applied 1..3 times. A violation needs both the wall-clock filter (>=10^4 x normal time) and the deterministic step budget (>=20x the calibrated maximum) to be exceeded.",
    "A call that terminates but is super-linearly slow inside the budget is not reported; the step budget is calibrated on the generated sizes only.",
)

check(
    "C08",
    "Hypothesis-generated WILD interfaces x 12 formats x rounds 2..4; fixpoint oracle round(ir_n) == ir_n with exact dict equality",
    "Generated-input search over interfaces deliberately outside the exact-round-trip domains (trigger words, non-suffix defaults, hostile strings, unusual types); whatever the first round produces must be reproduced exactly by the second, third and fourth, and later rounds must not raise on the tool's own output.",
    "Relaxations are per (parameter, finding) and decided on the input: P47 (prose-derived type/default), P12 (hostile string default), P29 (sqlalchemy column of unmapped type: format skipped), P46 (sqlalchemy class header doc), P21/P22 (google/numpydoc return entry).",
)

check(
    "C15",
    "grammar-based Hypothesis generator of docstrings with marker words; tiling (slice-identity) oracle for the header/args/footer split and header-line-subsequence / no-absorption oracle for style conversion",
    "Generated-input search over multi-paragraph headers x three section styles x footers x blank-line counts x indentation: the split must tile the original exactly (prefix, suffix, no overlap, exact concatenation in column 0) for both shapes of `current`; conversions to all three styles (with the original docstring carried along, without it - header from the parsed description - and through function.parse of a def carrying the docstring) must keep every header line in order and must not absorb marker words into names, types or defaults.",
    "Footers are broadly mishandled by the tree (P20, P49), as are `:rtype:` lines (P50), text without trailing newline (P48), indented numpydoc (P25) and the exact section/footer boundary (P51): those classes relax the re-parse clauses only; the tiling and header clauses are never relaxed.",
)

check(
    "C14",
    "Hypothesis over six input families (grammar docstrings, hand-shaped defs, emitter output in 8 formats, token soups, LIVE imported function/class objects, hand-shaped JSON-schemas with $ref/anyOf/nullable/format/items, hand-shaped SQLAlchemy models) + coverage-guided fuzzing of the docstring parser (atheris/libFuzzer, oracle inside the target); shape-validator oracle plus signature-coverage oracle with the ast signature as reference",
    "Generated-input search over parser inputs; every returned interface description is validated against the documented shape (keys, name constraints, uniqueness, key set of each entry, `typ` parses as an expression, string descriptions, single return_type entry), and for function parsers every positional-or-keyword / keyword-only parameter of the signature must appear exactly once.",
    "Exceptions are acceptable outcomes except on input the emitters themselves produced. Relaxed: P30 (ill-formed text: empty names / unparseable types), P35 (*args, **kwargs, positional-only), P29 (sqlalchemy None / server_default keys), P20/P49 (footer garbage in typ), P22.",
)

check(
    "C07",
    "Hypothesis-generated Python modules x histories of 1..3 doctrans runs (API and CLI entry); erased-AST equality, comment-token sequence, protected-line subsequence and fault-atomicity oracles against the ORIGINAL file; fault injection (the k-th call of one of eleven conversion steps is made to raise) for the atomicity clause",
    "Generated-input search over programs: after every run of a generated history the file must compile, its AST with docstrings/annotations/type comments erased must equal the original's (defaults, *args/**kwargs, kw-only marker, decorators, bases, statements, nested defs), the COMMENT tokens must be the same sequence and every line outside def headers and docstrings byte-identical; when doctrans raises (on generated syntax-error files, on inputs that trip cdd, and when a generated (step, call number) fault is injected into a run on a valid module) the bytes must be unchanged and nothing else may be left in the directory.",
    "The five open shapes P19 (async docstring), P26 (comment in multi-line header), P27 (one-line def), P28 (raw docstring), P68 (decorated def with a trailing header comment) are generated in a separate layer under their own labels and relax only the clause each corrupts.",
)

check(
    "C13",
    "Hypothesis-generated module pairs with dotted paths valid by construction, driven through the function and through the sync_properties command line; masked-AST equality oracle (every node but the selected location identical), annotation oracle, default-alignment oracle, raise-atomicity",
    "Generated-input search over input/output modules and all valid (input-param, output-param) pairs, wrap templates and --input-eval: the output file must parse, the selected location must carry the input's name and (wrapped) annotation or the Literal of the evaluated value, ast.dump of everything else must be identical (covers every other definition, parameter, default and statement, and the alignment of defaults), and the input file must be untouched; when cdd rejects a path both files must be byte-identical. A metamorphic layer checks that ONE call with two (input, output) pairs equals two consecutive single-pair calls; same-name attribute->parameter pairs (the natural use) are built on purpose.",
    "The selected parameter's own default may take the value of a same-named input class attribute (designed behaviour), nothing else may change; param->attr pairs are outside the generated domain.",
)

check(
    "C12",
    "Hypothesis-generated triples of files x truth kind x present/missing/empty states x 1..3 runs of the sync CLI entry; re-parse-equals-truth, outside-AST-unchanged and byte-idempotence oracles",
    "Generated-input search over initial states and histories: after run 1 every listed file must compile, each named target re-parsed with the matching cdd parser must have the truth's interface (names, order, types, defaults, descriptions under the per-format normalisations), the truth's own interface must be unchanged, the AST of each file with the named target removed must be unchanged; runs 2 and 3 must leave every file byte-identical.",
    "P9 (open, cannot be repaired with the suite unedited) relaxes 'target conforms' for function/argparse targets and idempotence/outside for Class.method targets only; class targets (present, missing, empty), truth-unchanged, compilation and byte-stability of class/argparse files stay strict.",
)

check(
    "C19",
    "Hypothesis-generated input modules / JSON-schema files / directories x parse kind x 8 emit kinds x name templates x import inference x prepend x existing-output, through the gen CLI entry; compile, names == __all__ == templated names, per-symbol re-parse, import-closure and no-clobber oracles; metamorphic layer: `--parse infer` writes the same bytes as the explicit `--parse sqlalchemy` on SQLAlchemy models with varied base-class lists",
    "Generated-input search over the gen configuration matrix and multi-symbol inputs (also modules mixing classes, plain functions and argparse functions under --parse infer): the output must compile, define exactly the templated names and list exactly those in __all__, each generated symbol parsed back must have the interface of its source entry (C02/C03 normalisations), every typing name used must be imported when inference is on, __future__ imports first; on an existing output file gen must refuse and leave bytes and mtime untouched.",
    "P17d (sqlalchemy kinds with a non-identity template define the un-templated name) relaxes only the defined-names / re-parse clauses for those cells; JSON-schema files and directories of files ARE generated as inputs; SQLAlchemy-class and Table *inputs* are not (P37).",
)

check(
    "C20",
    "Hypothesis-generated package trees x configuration, with dry-run x output-directory state (absent/empty/populated by a previous real run) enumerated inside each case; recursive file-system snapshot diff plus sys.addaudithook write-event log as oracle",
    "Generated-input search over layouts (also modules with top-level classes that __all__ does not export) and option combinations, each case a short history (optional previous real run, then the observed run): dry-run must leave the snapshot of the whole temp root identical and raise no write/mkdir/remove/rename audit event; a real run may only create or modify paths under the output directory, must leave the source package subtree identical, every generated *.py must parse and its __all__ must name symbols the file defines or imports.",
    "P31 (pydantic/json_schema/sqlalchemy kinds raise) keeps only the containment clauses for those kinds; P56 (black/whitelist FQN never matches) relaxes the blacklist clause; audit events are Python-level.",
)

check(
    "C16",
    "Hypothesis-generated SQLAlchemy models (documented and undocumented columns) x CRUD subsets x upsert histories into an existing routes file x API / command-line entry x prefixes x app names; $ref-closure resolver, path-template/parameter consistency, operations == requested CRUD and schema == model oracles on both OpenAPI generators",
    "Generated-input search over models and route configurations: routes are generated, written and fed back to openapi_bulk, and cdd.compound.openapi.emit.openapi is run on the same models as tuples; each document must be JSON-serialisable, every $ref must resolve inside the document, every {param} of a path template must be declared in: path, the operations present must be exactly the requested ones (C->post on the collection, R->get and D->delete on the item) and the component schema of each model must list exactly its columns with required == non-nullable.",
    "openapi_bulk is strict only on the slice 'table name title-cases to the class name, explicit/inferable PK, no ForeignKey' (P16, P32, P33, P57 cover the rest); emit.openapi has no open class.",
)

check(
    "C17",
    "Hypothesis-generated adversarial inputs (payload x position x trigger x style x API) under a sys.addaudithook monitor with sentinel callables / modules / files; opcode inspection of string-compiled code; positive controls",
    "Generated-input search over adversarial sources: payloads are placed in defaults, type strings, descriptions (also spelled only with the characters the doc-type filter passes), decorators, class bodies and module-level statements and run through every parser, the emitters on the result, doctrans, sync, sync_properties and gen-from-file; no sentinel may fire, no process/network/ctypes event may occur, no sentinel module may be imported, string-compiled code executed from a cdd frame must be a pure name/subscript probe (no CALL/IMPORT/STORE/MAKE_FUNCTION, no dunder), and cdd frames may only write the explicitly named output files. The two opt-in paths must be SEEN by the monitor on every run.",
    "Audit events are Python-level; exec of library-generated code (namedtuple, dataclass) from non-cdd frames is accepted unless it references a sentinel.",
)

NOT_YET = "check not built yet in this round (work in progress; DESIGN.md section 4 has the plan)"


def main():
    props = [json.loads(l)["id"] for l in open(os.path.join(ROOT, "properties.jsonl"))]
    checks, na = [], []
    for pid in props:
        c = CHECKS.get(pid)
        if not c:
            na.append({"property_id": pid, "reason": NOT_YET})
            continue
        e = {
            "property_id": pid,
            "quick_cmd": "./check %s quick" % pid,
            "evidence_file": "evidence/%s.json" % pid,
            "replay_cmd_template": "./check %s --replay {path}" % pid,
            "engine": next((g["name"] for g in ENGINES if pid in g["serves_properties"]), ""),
            "level_claimed": {"category": "exploration", "text": c["text"], "design_ref": c["ref"]},
            "level_note": c["note"],
            "technique": c["technique"],
        }
        if c["thorough"]:
            e["thorough_cmd"] = "./check %s thorough" % pid
        checks.append(e)
    m = {
        "version": 1,
        "setup_cmd": "./setup.sh",
        "hooks": {
            "guard": "OFFSCALE_CDD_PYTHON_VERIF",
            "enable": "no source hooks are needed: checks import cdd from /repo's working tree in fresh interpreters and observe it from outside (audit hooks, tracing, temp dirs)",
            "baseline_off_cmd": "cd /repo && /venv/bin/python -m pytest -ra -q -p no:cacheprovider --timeout=900 --continue-on-collection-errors",
            "source_commits": [],
            "add_only": True,
        },
        "engines": ENGINES,
        "checks": checks,
        "notes": "Family: property-based testing and fuzzing. Every check: ./check <id> <quick|thorough>; exit 0/1/2 (2 = harness error). known_findings.json lists open and fixed findings; see DESIGN.md.",
        "not_applicable": na,
    }
    with open(os.path.join(ROOT, "MANIFEST.json"), "w") as f:
        json.dump(m, f, indent=1)
    print("MANIFEST.json: %d checks, %d not claimed" % (len(checks), len(na)))


if __name__ == "__main__":
    main()
