#!/bin/bash
# usage: tools/mutant_run.sh <patch.diff> <tier> <Cxx> [Cxx...]   - runs checks against a scratch copy of /repo with the patch applied
set -u
PATCH=$(realpath "$1"); TIER=$2; shift 2
D=$(mktemp -d /dev/shm/mut_XXXXXX)
rsync -a --exclude .git --exclude '__pycache__' /repo/ "$D/"
( cd "$D" && patch -p1 -s < "$PATCH" ) || { echo "PATCH FAILED"; rm -rf "$D"; exit 3; }
cd "$(dirname "$0")/.."
for c in "$@"; do
  echo "== $c on $(basename $PATCH)"
  VERIF_REPO="$D" VERIF_OUT="$D/_out" ./check "$c" "$TIER" 2>&1 | grep -v "^KNOWN-FINDING" | tail -4
  echo "rc=${PIPESTATUS[0]}"
done
rm -rf "$D"
