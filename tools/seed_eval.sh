#!/bin/bash
# usage: tools/seed_eval.sh <seed dir with patch.diff demo.py notes.md> <name> <tier> <Cxx> [Cxx...]
# Confirms a seeded change (demo passes on the clean tree, fails on the changed tree, repository suite unchanged),
# runs the given checks against the changed tree and stores everything under seeded/<name>/.
set -u
S=$(realpath "$1"); NAME=$2; TIER=$3; shift 3
V="$(cd "$(dirname "$0")/.." && pwd)"
D=$(mktemp -d /dev/shm/seed_XXXXXX)
rsync -a --exclude .git --exclude __pycache__ --exclude _seed /repo/ "$D/"
OUT="$V/seeded/$NAME"; mkdir -p "$OUT"
if [ "$S" != "$(realpath "$OUT")" ]; then cp "$S/patch.diff" "$OUT/patch.diff"; cp "$S/demo.py" "$OUT/demo.py" 2>/dev/null; cp "$S/notes.md" "$OUT/notes.md" 2>/dev/null; fi
( cd "$D" && PYTHONPATH="$D" PYTHONDONTWRITEBYTECODE=1 timeout 600 /venv/bin/python "$OUT/demo.py" >"$OUT/demo_clean.log" 2>&1 ); RC_CLEAN=$?
( cd "$D" && patch -p1 -s < "$OUT/patch.diff" ) || { echo "PATCH DOES NOT APPLY"; rm -rf "$D"; exit 3; }
( cd "$D" && PYTHONPATH="$D" PYTHONDONTWRITEBYTECODE=1 timeout 600 /venv/bin/python "$OUT/demo.py" >"$OUT/demo_patched.log" 2>&1 ); RC_PATCHED=$?
SUITE=$( cd "$D" && PYTHONPATH="$D" PYTHONDONTWRITEBYTECODE=1 /venv/bin/python -m pytest -q -p no:cacheprovider --timeout=900 --continue-on-collection-errors --junitxml="$D/junit.xml" >/dev/null 2>&1; /venv/bin/python - "$D/junit.xml" <<'PY'
import sys, json, xml.etree.ElementTree as ET
base=set(json.load(open('/root/.vp/BASELINE.json'))['stable_pass'])
ok=set()
for tc in ET.parse(sys.argv[1]).iter('testcase'):
    if not any(c.tag in('failure','error','skipped') for c in tc): ok.add(tc.get('classname')+'::'+tc.get('name'))
print("baseline_ok=%d/%d extra_pass=%d" % (len(base&ok), len(base), len(ok-base)))
PY
)
echo "demo clean rc=$RC_CLEAN patched rc=$RC_PATCHED suite: $SUITE"
RESULTS=""
cd "$V"
for c in "$@"; do
  s=$(date +%s); out=$(VERIF_REPO="$D" VERIF_OUT="$D/_out" ./check "$c" "$TIER" 2>&1); rc=$?; e=$(date +%s)
  echo "== $c $TIER rc=$rc $((e-s))s: $(echo "$out" | grep -v '^KNOWN-FINDING' | tail -2 | tr '\n' ' ' | cut -c1-300)"
  RESULTS="$RESULTS $c:$TIER:rc=$rc:$((e-s))s"
  if [ $rc -eq 1 ]; then
    f=$(echo "$out" | grep '^VIOLATION' | head -1 | sed 's/.*replay=//'); [ -n "$f" ] && cp "$D/_out/$f" "$OUT/replay_$c.json" 2>/dev/null
  fi
done
cat > "$OUT/meta.json" <<EOF
{"name": "$NAME", "demo_rc_clean": $RC_CLEAN, "demo_rc_patched": $RC_PATCHED, "suite_on_patched": "$SUITE", "checks_run": "$RESULTS", "base_commit": "$(git -C /repo rev-parse --short HEAD)"}
EOF
rm -rf "$D"
